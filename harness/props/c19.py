"""C19 — archive retention keeps exactly what is selected or referenced.

Every case is a *history*: real .tgz artifacts (genuine audit trails built with
bob.audit.Artifact, packed with bob.archive.TarHelper._pack) are added to /
removed from / replaced in a scratch archive directory, interleaved with
`bob archive -l scan|find|clean` commands executed in-process through
bob.cmds.archive.doArchive (imported from the repository as it is now).

Three things are compared for every command of every history:
  implementation (status class, printed artifact list, artifacts left on disk)
  Coq model      BobV.C19.Model.run_hist, evaluated with vm_compute
  oracles        written here, independent of the model: declarative retention
                 set from the ground-truth audits, dry-run/error leave the
                 archive alone, and the same command on a copy of the archive
                 with no index gives the same result (index transparency).
"""
import contextlib, copy, functools, glob, gzip, hashlib, io, json, os, re, shutil, tarfile
from datetime import datetime, timezone

from vlib import coq, core, coqlit as L
from props import consts_c19

PROPERTY_FILES = ["C19/Properties.v"]

# ------------------------------------------------------------------ pools
POOL = ["n%02d" % i for i in range(48)]                  # artifact names of a run
GHOSTS = ["g%d" % i for i in range(4)]                   # referenced but never present


def bid_of(name):
    return hashlib.sha1(("c19:" + name).encode()).digest()


BIDS = {n: bid_of(n) for n in POOL + GHOSTS}
NAME_OF = {v.hex(): k for k, v in BIDS.items()}
PKGS = ["root", "lib/a", "lib/b", "tool"]
RECIPES = ["root", "lib"]
PRIOS = ["1", "2", "10", "", "é", "b\"q", "a\\b"]
STAGES = ["dev", "rel"]
DATES = ["2020-01-01", "2020-01-02", "2020-01-02", "2020-02-01", "2021-06-30"]
FIELDS = ["meta.package", "meta.recipe", "meta.step", "meta.prio", "meta.nosuch", "build.date", "build.machine",
          "metaEnv.STAGE", "metaEnv.NOPE", "meta.package.x", "nosuch", "nosuch.field"]
ERR_FIELDS = ["meta", "build", "metaEnv"]              # sections: not strings
SORT_FIELDS = ["meta.prio", "build.date", "metaEnv.STAGE", "meta.package", "meta.nosuch", "build.date", "meta.prio"]
OPS = ["<", "<=", ">", ">=", "==", "!="]
LEVEL = {"!": 1, "<": 2, "<=": 3, ">": 4, ">=": 5, "==": 6, "!=": 7, "&&": 8, "||": 9}
BAD_TEXTS = ["", "meta.package ==", "\"abc", "meta.step == \"dist\" ||", "meta.package == \"root\" LIMIT",
             "meta.package == \"root\" ORDER BY build.date", "meta.package = \"root\"",
             "meta.package == \"root\" LIMIT x", "(meta.package == \"root\"", "meta.package == 'root'",
             "meta.package == \"root\" LIMIT 1 ORDER build.date", "&& meta.step == \"dist\""]


def iso(d):
    y, m, dd = map(int, d.split("-"))
    return datetime(y, m, dd, 12, 0, 0, tzinfo=timezone.utc)


# ------------------------------------------------------------------ ground truth of a spec
def true_refs(deps):
    """audit-level references: follow the dependency records, stop at dist artifacts"""
    out = set()
    for r in deps:
        if r["step"] == "dist":
            out.add(r["bid"])
        else:
            out |= true_refs(r["deps"])
    return out


_BCOMMON = None


def build_common():
    """the uname part of the build info (identical for every artifact of a run)"""
    global _BCOMMON
    if _BCOMMON is None:
        from bob.audit import Artifact
        b = dict(Artifact(iso(DATES[0])).getBuildInfo())
        b.pop("date")
        _BCOMMON = b
    return _BCOMMON


def true_vars(art):
    b = dict(build_common())
    if art["date"] is not None:
        b["date"] = iso(art["date"]).isoformat()
    return {"meta": dict(art["meta"]), "build": b, "metaEnv": dict(art["metaEnv"] or {})}


# ------------------------------------------------------------------ documented semantics of expressions
class QErr(Exception):
    pass


def ds_string(e, v):
    if e[0] == "lit":
        return e[1]
    if e[0] == "var":
        parts = e[1].split(".")
        cur = v
        for i, p in enumerate(parts):
            if isinstance(cur, dict):
                if p not in cur:
                    return None          # undefined
                cur = cur[p]
            else:
                return None              # below a string there is nothing
        if not isinstance(cur, str):
            raise QErr()                 # a section is not a field
        return cur
    raise QErr()


def ds_bool(e, v):
    k = e[0]
    if k == "not":
        return not ds_bool(e[1], v)
    if k == "and":
        return ds_bool(e[1], v) and ds_bool(e[2], v)
    if k == "or":
        return ds_bool(e[1], v) or ds_bool(e[2], v)
    if k == "cmp":
        l, r = ds_string(e[2], v), ds_string(e[3], v)
        op = e[1]
        if op == "==":
            return l == r
        if op == "!=":
            return l != r
        if l is None or r is None:
            raise QErr()
        return {"<": l < r, ">": l > r, "<=": l <= r, ">=": l >= r}[op]
    raise QErr()


def ds_select(exprs, arts):
    """arts: {bidhex: vars}.  Returns None on error, else a list per expression of
    (must, may, need): artifacts that every valid selection contains, artifacts
    tied at the LIMIT boundary, and how many of the latter are taken."""
    out = []
    try:
        for x in exprs:
            if x.get("bad") is not None or (x["limit"] is not None and x["limit"] <= 0):
                return None
        for x in exprs:
            matched = [b for b in sorted(arts) if ds_bool(x["ast"], arts[b])]
            if x["limit"] is None:
                out.append((set(matched), set(), 0))
                continue
            keyed = [(b, ds_string(["var", x["sort"] or "build.date"], arts[b])) for b in matched]
            asc = x["dir"] == "ASC"

            def better(a, b):
                ka, kb = a[1], b[1]
                if ka is None and kb is None:
                    return 0
                if ka is None:
                    return 1
                if kb is None:
                    return -1
                if ka == kb:
                    return 0
                if asc:
                    return -1 if ka < kb else 1
                return -1 if ka > kb else 1
            keyed.sort(key=functools.cmp_to_key(better))
            n = x["limit"]
            if len(keyed) <= n:
                out.append((set(matched), set(), 0))
                continue
            thr = keyed[n - 1]
            must = {b for b, k in keyed if better((b, k), thr) < 0}
            may = {b for b, k in keyed if better((b, k), thr) == 0}
            out.append((must, may, n - len(must)))
    except QErr:
        return None
    return out


def closure(start, refs):
    seen = set(start)
    todo = list(start)
    while todo:
        n = todo.pop()
        for r in refs.get(n, ()):
            if r not in seen:
                seen.add(r)
                todo.append(r)
    return seen


# ------------------------------------------------------------------ rendering expressions
def lvl(e):
    k = e[0]
    if k in ("lit", "var"):
        return 0
    if k == "not":
        return 1
    if k == "and":
        return 8
    if k == "or":
        return 9
    return LEVEL[e[1]]


def quote(s):
    return '"' + s.replace("\\", "\\\\").replace('"', '\\"') + '"'


def render(e, rng=None):
    k = e[0]
    if k == "lit":
        return quote(e[1])
    if k == "var":
        return e[1]
    extra = (lambda: rng is not None and rng.random() < 0.06)
    if k == "not":
        a = render(e[1], rng)
        if lvl(e[1]) > 1 or (lvl(e[1]) > 0 and extra()):
            a = "(" + a + ")"
        return "!" + (" " if rng is not None and rng.random() < 0.3 else "") + a
    op = {"and": "&&", "or": "||"}.get(k, e[1] if k == "cmp" else None)
    l, r = (e[1], e[2]) if k != "cmp" else (e[2], e[3])
    me = lvl(e)
    ls, rs = render(l, rng), render(r, rng)
    if lvl(l) > me or extra():
        ls = "(" + ls + ")"
    if lvl(r) >= me or extra():
        rs = "(" + rs + ")"
    sp = "" if rng is not None and rng.random() < 0.1 else " "
    return ls + sp + op + sp + rs


def render_rexpr(x, rng=None):
    if x.get("bad") is not None:
        return x["bad"]
    if x.get("text") is not None:
        return x["text"]
    t = render(x["ast"], rng)
    kw = (lambda s: s.lower() if rng is not None and rng.random() < 0.2 else s)
    if x["limit"] is not None:
        t += " " + kw("LIMIT") + " " + ("%d" % x["limit"] if rng is None or rng.random() < 0.9 else "0%d" % x["limit"])
        if x["sort"] is not None:
            t += " " + kw("ORDER") + " " + kw("BY") + " " + x["sort"]
            if x["dir"] is not None:
                t += " " + kw(x["dir"])
    return t


# ------------------------------------------------------------------ generators
SOLID_FIELDS = ["meta.package", "meta.recipe", "build.date", "build.machine", "build.date"]


def gen_atom_cmp(rng, vals):
    if rng.random() < 0.3:
        # ordering comparison: mostly on fields every artifact has (an undefined operand is a query error)
        op = rng.choice(["<", ">=", ">", "<="])
        f = rng.choice(SOLID_FIELDS) if rng.random() < 0.93 else rng.choice(FIELDS)
    else:
        op = rng.choice(["==", "==", "!="])
        f = rng.choice(FIELDS if rng.random() < 0.985 else ERR_FIELDS)
    r = rng.random()
    if r < 0.85:
        rhs = ["lit", rng.choice(vals)]
    elif r < 0.93:
        rhs = ["var", rng.choice(SOLID_FIELDS if op not in ("==", "!=") else FIELDS)]
    else:
        rhs = ["lit", "".join(rng.choice("ab\"\\ é1") for _ in range(rng.randint(0, 3)))]
    a, b = ["var", f], rhs
    if rng.random() < 0.1:
        a, b = b, a
    return ["cmp", op, a, b]


def gen_ex(rng, depth, vals):
    r = rng.random()
    if depth <= 0 or r < 0.45:
        return gen_atom_cmp(rng, vals)
    if r < 0.58:
        return ["not", gen_ex(rng, depth - 1, vals)]
    if r < 0.78:
        return ["and", gen_ex(rng, depth - 1, vals), gen_ex(rng, depth - 1, vals)]
    if r < 0.975:
        return ["or", gen_ex(rng, depth - 1, vals), gen_ex(rng, depth - 1, vals)]
    # ill-typed shapes: operator in string context, string/field in boolean context
    s = rng.random()
    if s < 0.3:
        return ["cmp", rng.choice(OPS), gen_atom_cmp(rng, vals), ["lit", "x"]]
    if s < 0.6:
        return ["not", ["var", rng.choice(FIELDS)]]
    if s < 0.8:
        return ["and", ["lit", "x"], gen_atom_cmp(rng, vals)]
    return ["or", gen_atom_cmp(rng, vals), ["var", "meta.package"]]


def gen_rexpr(rng, vals):
    if rng.random() < 0.02:
        return {"bad": rng.choice(BAD_TEXTS)}
    x = {"ast": gen_ex(rng, rng.choice([0, 0, 0, 0, 1, 1, 1, 2, 2, 3]), vals), "limit": None, "sort": None, "dir": None}
    if rng.random() < 0.55:
        x["limit"] = rng.choice([1, 1, 1, 2, 2, 3, 4, 30]) if rng.random() < 0.985 else 0
        if rng.random() < 0.7:
            x["sort"] = rng.choice(SORT_FIELDS) if rng.random() < 0.985 else rng.choice(ERR_FIELDS)
            if rng.random() < 0.7:
                x["dir"] = rng.choice(["ASC", "DESC"])
    x["text"] = render_rexpr(x, rng)
    return x


def gen_rec(rng, names, depth):
    if depth <= 0 or rng.random() < 0.6:
        tgt = rng.choice(names) if rng.random() < 0.88 else rng.choice(GHOSTS)
        sub = []
        if rng.random() < 0.25:       # what a dist artifact depends on is *not* a reference of the user
            sub = [{"bid": rng.choice(names), "step": "dist", "deps": [], "via": "arg"}]
        return {"bid": tgt, "step": "dist", "deps": sub, "via": rng.choice(["arg", "arg", "tool"])}
    return {"bid": rng.choice(GHOSTS + names[:2]), "step": rng.choice(["build", "src"]),
            "deps": [gen_rec(rng, names, depth - 1) for _ in range(rng.choice([1, 1, 2]))],
            "via": rng.choice(["arg", "arg", "tool"])}


def gen_art(rng, names):
    meta = {"package": rng.choice(PKGS), "recipe": rng.choice(RECIPES)}
    s = rng.random()
    if s < 0.85:
        meta["step"] = "dist"
    elif s < 0.93:
        meta["step"] = "build"
    if rng.random() < 0.6:
        meta["prio"] = rng.choice(PRIOS)
    menv = None
    if rng.random() < 0.7:
        menv = {}
        if rng.random() < 0.7:
            menv["STAGE"] = rng.choice(STAGES)
    deps = [gen_rec(rng, names, 2) for _ in range(rng.choice([0, 0, 1, 1, 2, 3]))]
    if deps and rng.random() < 0.2:
        deps[0]["via"] = "sandbox"
    return {"meta": meta, "date": rng.choice(DATES) if rng.random() < 0.88 else None, "metaEnv": menv,
            "deps": deps, "noaudit": rng.random() < 0.04}


def gen_history(rng, maxn=12, ncmd=7):
    names = rng.sample(POOL, rng.randint(3, maxn))
    vals = PKGS + RECIPES + PRIOS + STAGES + ["dist", "build"] + [iso(d).isoformat() for d in DATES] + ["2020-01-02", "2021"]
    ev = []
    present = set()
    for n in names:
        if rng.random() < 0.8:
            ev.append({"op": "put", "name": n, "art": gen_art(rng, names)})
            present.add(n)
    last = None
    arts = {e["name"]: e["art"] for e in ev}
    for _ in range(rng.randint(3, ncmd)):
        for _ in range(rng.choice([0, 0, 1, 1, 2, 3])):
            r = rng.random()
            pres = sorted(present)
            if r < 0.3 and pres:
                n = rng.choice(pres)
                ev.append({"op": "del", "name": n, "rmdir": rng.random() < 0.5})
                present.discard(n)
            elif r < 0.55:
                n = rng.choice(names)
                a = gen_art(rng, names)
                ev.append({"op": "put", "name": n, "art": a})
                present.add(n)
                arts[n] = a
            elif r < 0.8 and pres:
                # in-place rebuild: same meta data, other dependencies
                n = rng.choice(pres)
                a = copy.deepcopy(arts[n])
                a["deps"] = [gen_rec(rng, names, 2) for _ in range(rng.choice([0, 1, 1, 2]))]
                a["noaudit"] = rng.random() < 0.08
                ev.append({"op": "put", "name": n, "art": a})
                arts[n] = a
            elif pres:
                ev.append({"op": "touch", "name": rng.choice(pres)})
        r = rng.random()
        c = {"op": "cmd", "noscan": False, "fail": rng.random() < 0.07, "dry": False}
        if r < 0.12:
            c["cmd"] = "scan"
            c["exprs"] = []
        else:
            c["cmd"] = "find" if r < 0.42 else "clean"
            c["dry"] = c["cmd"] == "clean" and rng.random() < 0.35
            c["noscan"] = rng.random() < 0.15
            if last is not None and rng.random() < 0.45:
                c["exprs"] = copy.deepcopy(last)
            else:
                c["exprs"] = [gen_rexpr(rng, vals) for _ in range(rng.choice([1, 1, 2, 3]))]
            last = c["exprs"]
        ev.append(c)
    noise = []
    if rng.random() < 0.3:
        h = bid_of(rng.choice(names)).hex()
        noise = [os.path.join(h[:2], h[2:4], h[4:] + "-1.buildid"), os.path.join(h[:2], h[2:4], "tmpabc123"),
                 os.path.join(h[:2], "readme.txt"), os.path.join("zzz", "yy", "0" * 36 + "-1.tgz"),
                 os.path.join(h[:2], h[2:4], h[4:20] + "-1.tgz"), "top-1.tgz"]
    return {"events": ev, "noise": noise}


# ------------------------------------------------------------------ the real archive
_FACTS = None


def source_facts():
    global _FACTS
    if _FACTS is None:
        _FACTS = consts_c19.facts()
    return _FACTS


class _Sqlite3Proxy:
    """sqlite3 as seen by bob.cmds.archive, with durability switched off (the scratch archives need not
    survive a power loss; one fsync per statement dominates the run time otherwise).  Logic is untouched."""

    def __init__(self, real):
        self._real = real

    def __getattr__(self, k):
        return getattr(self._real, k)

    def connect(self, *a, **kw):
        con = self._real.connect(*a, **kw)
        con.execute("PRAGMA synchronous=OFF")
        con.execute("PRAGMA journal_mode=MEMORY").fetchall()
        return con


def install_wrappers():
    import bob.cmds.archive as m
    if not isinstance(m.sqlite3, _Sqlite3Proxy):
        m.sqlite3 = _Sqlite3Proxy(m.sqlite3)


class World:
    def __init__(self):
        self.root = core.scratch_dir("c19a")
        self.tmp = core.scratch_dir("c19t")
        self.content = os.path.join(self.tmp, "content")
        os.makedirs(self.content)
        with open(os.path.join(self.content, "file"), "w") as f:
            f.write("payload\n")
        facts = source_facts()
        self.dir_re = re.compile(facts["dir_schema"])
        self.file_re = re.compile(facts["file_schema"])
        self.db_name = facts["db_name"]
        self.stats = {}

    def close(self):
        shutil.rmtree(self.root, ignore_errors=True)
        shutil.rmtree(self.tmp, ignore_errors=True)

    def path(self, name):
        h = BIDS[name].hex()
        return os.path.join(self.root, h[0:2], h[2:4], h[4:] + "-1.tgz")

    def _records(self, deps, table):
        """build the Artifact records of the dependency specs; returns [(via, id)]"""
        from bob.audit import Artifact
        out = []
        for r in deps:
            a = Artifact(iso(DATES[0]))
            a.reset(b"\x11" * 20, BIDS[r["bid"]], b"\x22" * 20, iso(DATES[0]))
            a.addDefine("step", r["step"])
            a.addDefine("recipe", "dep")
            self._link(a, self._records(r["deps"], table))
            table[a.getId()] = a
            out.append((r.get("via", "arg"), a.getId()))
        return out

    @staticmethod
    def _link(a, ids):
        k = 0
        for via, i in ids:
            if via == "sandbox":
                a.setSandbox(i)
            elif via == "tool":
                a.addTool("t%d" % k, i)
                k += 1
            else:
                a.addArg(i)

    def put(self, name, art):
        from bob.audit import Artifact, Audit
        from bob.archive import TarHelper
        from bob.utils import binStat
        fn = self.path(name)
        os.makedirs(os.path.dirname(fn), exist_ok=True)
        tmpf = os.path.join(self.tmp, "upload.tgz")
        if art.get("noaudit"):
            with tarfile.open(tmpf, "w:gz", format=tarfile.GNU_FORMAT) as t:
                t.add(self.content, arcname="content")
        else:
            d = iso(art["date"] or DATES[0])
            a = Artifact(d)
            a.reset(b"\x11" * 20, BIDS[name], b"\x22" * 20, d)
            for k, v in art["meta"].items():
                a.addDefine(k, v)
            for k, v in (art["metaEnv"] or {}).items():
                a.addMetaEnv(k, v)
            table = {}
            self._link(a, self._records(art["deps"], table))
            top = copy.deepcopy(a.dump())
            if art["date"] is None:
                del top["build"]["date"]
            tree = {"artifact": top, "references": [r.dump() for r in table.values()]}
            af = os.path.join(self.tmp, "audit.json.gz")
            with gzip.open(af, "wb", 6) as gzf:               # as Audit.save does
                w = io.TextIOWrapper(gzf, encoding="utf8")
                json.dump(tree, w)
                w.flush()
            with gzip.open(af, "rb") as gzf:                   # must be a loadable audit trail
                Audit.fromByteStream(gzf, af)
            TarHelper()._pack(tmpf, None, af, self.content)
        old = self.stats.get(name)
        os.replace(tmpf, fn)
        self._fresh_stat(name, fn, old)

    def _fresh_stat(self, name, fn, old):
        from bob.utils import binStat
        st = binStat(fn)
        bump = 1
        while st == old:
            t = os.stat(fn).st_mtime_ns + bump * 1000000
            os.utime(fn, ns=(t, t))
            st = binStat(fn)
            bump += 1
        self.stats[name] = st

    def touch(self, name):
        fn = self.path(name)
        t = os.stat(fn).st_mtime_ns + 1000000007
        os.utime(fn, ns=(t, t))
        self._fresh_stat(name, fn, self.stats.get(name))

    def delete(self, name, rmdir=False):
        os.unlink(self.path(name))
        self.stats.pop(name, None)
        if rmdir:
            # the artifact vanishes together with its (then empty) directories: `rm -r xx/yy`, pruned archive trees
            # (seed C19-3: the index must forget it although no directory is left to be listed)
            d = os.path.dirname(self.path(name))
            for _ in range(2):
                try:
                    os.rmdir(d)
                except OSError:
                    break
                d = os.path.dirname(d)

    def add_noise(self, rel):
        p = os.path.join(self.root, rel)
        os.makedirs(os.path.dirname(p), exist_ok=True)
        with open(p, "w") as f:
            f.write("noise")

    def survivors(self, root=None):
        """bids (hex) of all files the scanner's schema accepts"""
        root = root or self.root
        out = []
        for l1 in os.listdir(root):
            if not self.dir_re.fullmatch(l1) or not os.path.isdir(os.path.join(root, l1)):
                continue
            for l2 in os.listdir(os.path.join(root, l1)):
                if not self.dir_re.fullmatch(l2) or not os.path.isdir(os.path.join(root, l1, l2)):
                    continue
                for l3 in os.listdir(os.path.join(root, l1, l2)):
                    if self.file_re.fullmatch(l3):
                        out.append(l1 + l2 + l3.partition("-")[0])
        return sorted(out)

    def fresh_copy(self):
        """a copy of the archive without the index"""
        dst = core.scratch_dir("c19f")
        for dp, dn, fns in os.walk(self.root):
            rel = os.path.relpath(dp, self.root)
            os.makedirs(os.path.join(dst, rel), exist_ok=True)
            for f in fns:
                if dp == self.root and f.startswith(self.db_name):
                    continue
                shutil.copy2(os.path.join(dp, f), os.path.join(dst, rel, f))
        return dst


def cmd_argv(c):
    argv = [c["cmd"]]
    if c["cmd"] == "clean" and c["dry"]:
        argv.append("--dry-run")
    if c["noscan"] and c["cmd"] != "scan":
        argv.append("-n")
    if c["fail"]:
        argv.append("-f")
    if c["cmd"] != "scan":
        argv.append("--")
        argv += [render_rexpr(x) for x in c["exprs"]]
    return argv


PATH_RE = re.compile(r"^\t?([0-9a-f]{2})/([0-9a-f]{2})/([0-9a-f]+)-1\.tgz$")
NOAUDIT_RE = re.compile(r"^\tCould not get audit for\s+([0-9a-zA-Z]{2})/([0-9a-zA-Z]{2})/([0-9a-zA-Z]+)-1\.tgz$")


def run_impl(root, c):
    """run one command in-process; returns dict(status, noaudit, list, raw)"""
    from bob.cmds.archive import doArchive
    from bob.errors import BobError
    install_wrappers()
    old = os.getcwd()
    os.chdir(root)
    o, e = io.StringIO(), io.StringIO()
    status = "ok"
    detail = ""
    try:
        with contextlib.redirect_stdout(o), contextlib.redirect_stderr(e):
            try:
                doArchive(["-l"] + cmd_argv(c), None)
            except BobError as ex:
                status, detail = "err", ex.slogan
            except SystemExit as ex:
                status, detail = ("exit" if ex.code == 1 else "internal:SystemExit%r" % (ex.code,)), ""
            except Exception as ex:                         # noqa: anything else is an internal error
                status, detail = "internal:" + type(ex).__name__, repr(ex)[:300]
    finally:
        os.chdir(old)
    lst, noaudit, other = [], [], []
    for ln in o.getvalue().split("\n"):
        if not ln:
            continue
        m = PATH_RE.match(ln)
        if m:
            lst.append(m.group(1) + m.group(2) + m.group(3))
            continue
        m = NOAUDIT_RE.match(ln)
        if m:
            noaudit.append((m.group(1) + m.group(2) + m.group(3)).lower())
            continue
        if ln.startswith("archive '"):
            continue
        other.append(ln)
    return {"status": status, "noaudit": sorted(set(noaudit)), "list": lst, "other": other, "detail": detail}


# ------------------------------------------------------------------ executing a history with the oracles
def run_case(case, transparency=True):
    """Executes the history on the implementation.  Returns (trace, failures):
    trace = per command dict(status, noaudit, list, survivors) ; failures = list of
    dict(kind, at, what) found by the oracles."""
    w = World()
    fails = []
    trace = []
    try:
        for rel in case.get("noise", []):
            w.add_noise(rel)
        present = {}      # name -> art spec (ground truth of what is on disk)
        prev_find = None  # (exprs text, selection) of an immediately preceding find on the same archive
        ci = -1
        dirty = False     # the archive changed behind bob's back since the index was last brought up to date
        for ev in case["events"]:
            op = ev["op"]
            if op == "put":
                w.put(ev["name"], ev["art"])
                present[ev["name"]] = ev["art"]
                prev_find = None
                dirty = True
                continue
            if op == "del":
                if ev["name"] in present:
                    w.delete(ev["name"], ev.get("rmdir", False))
                    del present[ev["name"]]
                    dirty = True
                prev_find = None
                continue
            if op == "touch":
                if ev["name"] in present:
                    w.touch(ev["name"])
                    dirty = True
                continue
            ci += 1
            c = ev
            before = w.survivors()
            specs = dict(present)
            assert sorted(BIDS[n].hex() for n in specs) == before, "harness lost track of the archive content"
            fresh = None
            # (a copy costs a second parse of every expression: taken whenever the index is stale, else every 3rd command)
            if transparency and not c["noscan"] and ci > 0 and (dirty or ci % 3 == 0):
                froot = w.fresh_copy()
                try:
                    fr = run_impl(froot, c)
                    fr["survivors"] = w.survivors(froot)
                    fresh = fr
                finally:
                    shutil.rmtree(froot, ignore_errors=True)
            r = run_impl(w.root, c)
            was_dirty = dirty
            if not c["noscan"]:
                dirty = False
            after = w.survivors()
            r["survivors"] = after
            r["feat"] = []
            if fresh is not None:
                r["feat"].append("stale-index-vs-fresh-compared" if was_dirty else "warm-index-vs-fresh-compared")
            trace.append(r)
            gone = set(before) - set(after)
            for n in [n for n in present if BIDS[n].hex() in gone]:
                del present[n]

            def fail(kind, what):
                fails.append({"kind": kind, "at": ci, "what": what})
            if r["status"].startswith("internal"):
                fail("internal-exception:" + r["status"].split(":", 1)[1], r["detail"])
                continue
            if r["other"]:
                fail("unexpected-output", r["other"][:3])
            if set(after) - set(before):
                fail("artifact-appeared", sorted(set(after) - set(before)))
            # ---- dry-run, find, scan and failed commands delete nothing
            if (c["cmd"] != "clean" or c["dry"] or r["status"] != "ok") and gone:
                fail("deleted-without-clean:" + ("dry-run" if c.get("dry") else c["cmd"] if r["status"] == "ok" else r["status"]),
                     sorted(NAME_OF.get(g, g) for g in gone))
            # ---- index transparency: same command on a copy without index
            if fresh is not None:
                for k in ("status", "list", "survivors", "noaudit"):
                    if fresh[k] != r[k]:
                        fail("index-dependent:" + k, {"warm": names(r[k]), "fresh": names(fresh[k])})
                        break
            # ---- declarative retention (ground truth = what is on disk now; needs a scan)
            if not c["noscan"] and c["cmd"] in ("find", "clean"):
                arts = {BIDS[n].hex(): true_vars(a) for n, a in specs.items() if not a.get("noaudit")}
                refs = {BIDS[n].hex(): {BIDS[t].hex() for t in true_refs(a["deps"])}
                        for n, a in specs.items() if not a.get("noaudit")}
                sel = ds_select(c["exprs"], arts)
                empty_exit = c["fail"] and not before
                if empty_exit:
                    if r["status"] != "exit":
                        fail("fail-flag-ignored", r["status"])
                elif sel is None:
                    if r["status"] != "err":
                        fail("bad-query-accepted", {"exprs": [render_rexpr(x) for x in c["exprs"]], "status": r["status"]})
                elif r["status"] != "ok":
                    fail("good-query-rejected", {"exprs": [render_rexpr(x) for x in c["exprs"]], "status": r["status"], "detail": r["detail"]})
                else:
                    must = set().union(*[m for m, _, _ in sel]) if sel else set()
                    may = set().union(*[y for _, y, _ in sel]) if sel else set()
                    exact = all(need == 0 or len(y) == need for _, y, need in sel)
                    if any(0 < need < len(y) for _, y, need in sel):
                        r["feat"].append("limit-boundary-tie")
                    if any(x["limit"] is not None and len(m | y) > 0 and any(
                            ds_string(["var", x["sort"] or "build.date"], arts[b]) is None for b in (m | y))
                           for x, (m, y, _) in zip(c["exprs"], sel)):
                        r["feat"].append("undefined-sort-key-retained")
                    if any(x["limit"] is not None and x["limit"] < sum(1 for b in arts if ds_bool(x["ast"], arts[b]))
                           for x in c["exprs"]):
                        r["feat"].append("limit-cuts")
                    if c["cmd"] == "find":
                        S = set(r["list"])
                        if r["list"] != sorted(S):
                            fail("find-not-sorted", names(r["list"]))
                        if not must <= S:
                            fail("find-misses-selected", names(sorted(must - S)))
                        if not S <= must | may:
                            fail("find-lists-unselected", names(sorted(S - must - may)))
                        for m, y, need in sel:
                            if len(S & (m | y)) < len(m) + min(need, len(y)):
                                fail("find-limit-underfilled", names(sorted(S)))
                        if len(S - must) > sum(need for _, _, need in sel):
                            fail("find-limit-exceeded", names(sorted(S)))
                        prev_find = ([render_rexpr(x) for x in c["exprs"]], S)
                        continue
                    # clean
                    if prev_find is not None and prev_find[0] == [render_rexpr(x) for x in c["exprs"]]:
                        lo = hi = closure(prev_find[1], refs)      # the selection is known from the find just before
                    else:
                        lo = closure(must, refs)
                        hi = closure(must | may, refs)
                        if exact:
                            lo = hi
                    indexed = set(arts)
                    if c["dry"]:
                        victims = set(r["list"])
                        kept = indexed - victims
                        if not victims <= indexed:
                            fail("dry-run-lists-unknown", names(sorted(victims - indexed)))
                    else:
                        kept = set(after) & indexed
                        if set(before) - indexed - set(after):
                            fail("clean-deleted-unindexed-file", names(sorted(set(before) - indexed - set(after))))
                    if kept - must - may:
                        r["feat"].append("kept-by-reference-only")
                    if kept and indexed - kept:
                        r["feat"].append("keeps-some-deletes-some")
                    if (lo - must - may) - indexed:
                        r["feat"].append("reference-to-absent-artifact")
                    if not (lo & indexed) <= kept:
                        fail("clean-deleted-retained", names(sorted((lo & indexed) - kept)))
                    if not kept <= hi:
                        fail("clean-kept-unreferenced", names(sorted(kept - hi)))
            if c["cmd"] != "find":
                prev_find = None if (c["cmd"] == "clean" and not c["dry"]) else prev_find
        for rel in case.get("noise", []):
            if not os.path.exists(os.path.join(w.root, rel)):
                fails.append({"kind": "noise-file-deleted", "at": ci, "what": rel})
    finally:
        w.close()
    return trace, fails


WORKERS = 4


def run_case_safe(case):
    import traceback
    try:
        trace, fails = run_case(case)
        return trace, fails, None
    except Exception:
        return None, None, traceback.format_exc()[-2500:]


def names(x):
    if isinstance(x, list):
        return [NAME_OF.get(i, i) for i in x]
    return x


# ------------------------------------------------------------------ signatures and shrinking
def signature(case, f):
    """class of the failing input, computed from the (minimised) case"""
    kind = f["kind"]
    if kind.startswith("index-dependent"):
        evs = case["events"]
        cmds = [i for i, e in enumerate(evs) if e["op"] == "cmd"]
        at = cmds[f["at"]] if f["at"] < len(cmds) else len(evs)
        first_scan = next((i for i in cmds if not evs[i]["noscan"]), None)
        muts = [e for e in evs[(first_scan or 0):at] if e["op"] != "cmd"]
        warm, fresh = f["what"].get("warm"), f["what"].get("fresh")
        more = isinstance(warm, list) and isinstance(fresh, list) and set(warm) > set(fresh)
        less = isinstance(warm, list) and isinstance(fresh, list) and set(warm) < set(fresh)
        if any(e["op"] == "del" for e in muts):
            if more and kind.endswith("survivors"):
                return "stale-refs:vanished-intermediate"
            return "stale-rows:vanished-artifact" + (":deletes-too-much" if less and kind.endswith("survivors") else "")
        if any(e["op"] in ("put", "touch") for e in muts):
            if more and kind.endswith("survivors"):
                return "stale-refs:replaced-in-place"
            return "stale-index:replaced-artifact"
        return "index-dependent:other"
    return kind


def first_failure(case):
    try:
        _, fails = run_case(case)
    except Exception as ex:     # a generator/harness problem must not be mistaken for a verdict
        return None
    return fails[0] if fails else None


def shrink(case, f0, budget=70):
    sig0 = signature(case, f0)
    best, bestf = case, f0

    def attempt(cand):
        nonlocal best, bestf, budget
        if budget <= 0:
            return False
        budget -= 1
        f = first_failure(cand)
        if f is not None and signature(cand, f) == sig0:
            best, bestf = cand, f
            return True
        return False
    # cut everything after the failing command
    cmds = [i for i, e in enumerate(best["events"]) if e["op"] == "cmd"]
    if bestf["at"] < len(cmds):
        attempt({"events": best["events"][:cmds[bestf["at"]] + 1], "noise": []}) or attempt(
            {"events": best["events"][:cmds[bestf["at"]] + 1], "noise": best.get("noise", [])})
    changed = True
    while changed and budget > 0:
        changed = False
        for i in range(len(best["events"]) - 2, -1, -1):
            cand = {"events": best["events"][:i] + best["events"][i + 1:], "noise": best.get("noise", [])}
            if attempt(cand):
                changed = True
                break
    # simplify the remaining pieces
    for i in range(len(best["events"])):
        e = best["events"][i]
        if e["op"] == "cmd":
            for j in range(len(e.get("exprs", [])) - 1, -1, -1):
                if len(best["events"][i]["exprs"]) > 1:
                    cand = copy.deepcopy(best)
                    del cand["events"][i]["exprs"][j]
                    attempt(cand)
        if e["op"] == "put":
            for j in range(len(e["art"]["deps"]) - 1, -1, -1):
                cand = copy.deepcopy(best)
                del cand["events"][i]["art"]["deps"][j]
                attempt(cand)
    return best, bestf


# ------------------------------------------------------------------ Coq literals
def bname(n):
    return "b_" + n


def coq_sec(d):
    return L.lst([L.pair(L.s(k), L.s(v)) for k, v in d.items()])


def coq_rec(r):
    return "(ARec %s %s %s)" % (L.B(r["step"] == "dist"), bname(r["bid"]), L.lst([coq_rec(x) for x in r["deps"]]))


def coq_art(name, art, stat):
    if art.get("noaudit"):
        au = "None"
    else:
        build = "bcommon" if art["date"] is None else "((%s, %s) :: bcommon)" % (L.s("date"), L.s(iso(art["date"]).isoformat()))
        v = L.lst([L.pair(L.s("meta"), coq_sec(art["meta"])), L.pair(L.s("build"), build),
                   L.pair(L.s("metaEnv"), coq_sec(art["metaEnv"] or {}))])
        au = "(Some {| au_vars := %s; au_deps := %s |})" % (v, L.lst([coq_rec(r) for r in art["deps"]]))
    return "{| f_bid := %s; f_stat := %d; f_audit := %s |}" % (bname(name), stat, au)


def coq_ex(e):
    k = e[0]
    if k == "lit":
        return "(ELit %s)" % L.s(e[1])
    if k == "var":
        return "(EVar %s)" % L.lst([L.s(p) for p in e[1].split(".")])
    if k == "not":
        return "(ENot %s)" % coq_ex(e[1])
    if k == "and":
        return "(EAnd %s %s)" % (coq_ex(e[1]), coq_ex(e[2]))
    if k == "or":
        return "(EOr %s %s)" % (coq_ex(e[1]), coq_ex(e[2]))
    op = {"<": "OLt", ">": "OGt", "<=": "OLe", ">=": "OGe", "==": "OEq", "!=": "ONe"}[e[1]]
    return "(ECmp %s %s %s)" % (op, coq_ex(e[2]), coq_ex(e[3]))


def coq_rsrc(x):
    if x.get("bad") is not None:
        return "RBad"
    return "(RGood {| r_expr := %s; r_limit := %s; r_sort := %s; r_asc := %s |})" % (
        coq_ex(x["ast"]), L.opt(x["limit"], L.N),
        L.opt(x["sort"], lambda s: L.lst([L.s(p) for p in s.split(".")])), L.B(x["dir"] == "ASC"))


def coq_history(case):
    out = []
    stat = 0
    arts = {}
    for ev in case["events"]:
        op = ev["op"]
        if op == "put":
            stat += 1
            arts[ev["name"]] = ev["art"]
            out.append("EPut %s" % coq_art(ev["name"], ev["art"], stat))
        elif op == "touch":
            if ev["name"] in arts:
                stat += 1
                out.append("EPut %s" % coq_art(ev["name"], arts[ev["name"]], stat))
        elif op == "del":
            arts.pop(ev["name"], None)
            out.append("EDel %s" % bname(ev["name"]))
        else:
            es = L.lst([coq_rsrc(x) for x in ev["exprs"]])
            if ev["cmd"] == "scan":
                c = "CScan %s" % L.B(ev["fail"])
            elif ev["cmd"] == "find":
                c = "CFind %s %s %s" % (L.B(ev["noscan"]), L.B(ev["fail"]), es)
            else:
                c = "CClean %s %s %s %s" % (L.B(ev["dry"]), L.B(ev["noscan"]), L.B(ev["fail"]), es)
            out.append("ECmd (%s)" % c)
    return L.lst(out)


def coq_bids(hexes):
    xs = []
    for h in hexes:
        xs.append(bname(NAME_OF[h]) if h in NAME_OF else L.by(bytes.fromhex(h)))
    return "(@nil bid)" if not xs else L.lst(xs)


def coq_trace(trace):
    st = {"ok": "SOk", "err": "SErr", "exit": "SExit"}
    return L.lst(["({| o_status := %s; o_noaudit := %s; o_list := %s |}, %s)" % (
        st[r["status"]], coq_bids(r["noaudit"]), coq_bids(r["list"]), coq_bids(r["survivors"])) for r in trace]) \
        if trace else "(@nil (obs * list bid))"


def preamble():
    pre = "".join("Definition %s : bid := %s.\n" % (bname(n), L.by(b)) for n, b in BIDS.items())
    pre += "Definition bcommon : list (str * str) := %s.\n" % coq_sec(build_common())
    return pre


def model_events(case, trace):
    """the history as the model sees it: del/touch of a file that an earlier clean has deleted are dropped
    (run_case skips them in the same way)."""
    present = set()
    out = []
    ci = 0
    for ev in case["events"]:
        op = ev["op"]
        if op == "put":
            present.add(ev["name"])
            out.append(ev)
        elif op in ("del", "touch"):
            if ev["name"] in present:
                out.append(ev)
                if op == "del":
                    present.discard(ev["name"])
        else:
            out.append(ev)
            if ci < len(trace):
                surv = set(trace[ci]["survivors"])
                present = {n for n in present if BIDS[n].hex() in surv}
            ci += 1
    return {"events": out}


# ------------------------------------------------------------------ main
def load_corpus():
    out = []
    for p in sorted(glob.glob(os.path.join(core.VERIF, "corpus", "C19", "*.json"))):
        with open(p) as f:
            d = json.load(f)
        out.append((os.path.basename(p), d.get("case", d)))
    return out


def nontrivial_cmds(case, trace):
    """indices of commands that exercise retention: an artifact is listed or deleted, or the query is rejected"""
    out = []
    prev = 0
    cmds = [e for e in case["events"] if e["op"] == "cmd"]
    for i, (c, r) in enumerate(zip(cmds, trace)):
        deleted = c["cmd"] == "clean" and not c["dry"] and "keeps-some-deletes-some" in r.get("feat", [])
        if c["cmd"] != "scan" and (r["list"] or r["status"] == "err" or deleted or len(r["survivors"]) < prev):
            out.append(i)
        prev = len(r["survivors"])
    return out


def check_batch(ctx, batch):
    """batch: list of (label, case, trace).  Evaluates the model on the histories."""
    cases = []
    for label, case, trace in batch:
        cases.append((coq_history(model_events(case, trace)), coq_trace(trace)))
    shard = max(10, (len(cases) + 3) // 4)
    bad, log = coq.run_cases(ctx, ["BobV.C19.Model"], "(fun h => run_hist ix_empty [] h)", "obss_eqb", cases,
                             shard=shard, preamble=preamble(), tag="hist")
    if bad is None:
        ctx.tie_broken("C19 model evaluation failed", log)
        return
    nb = set(bad)
    for i, (label, case, trace) in enumerate(batch):
        if i in nb:
            ctx.count("model-mismatch")
            if len([1 for t in ctx.ties_broken if t["name"] == "history-correspondence"]) < 5:
                got, _ = coq.eval_terms(ctx, ["BobV.C19.Model"], ["run_hist ix_empty [] %s" % cases[i][0]], preamble=preamble())
                ctx.tie_broken("history-correspondence", {"label": label, "case": case, "impl_trace": trace,
                                                          "model": (got or ["?"])[0][:3000]})
        else:
            ctx.validated(len(trace))


def report(ctx, label, case, fails):
    f0 = fails[0]
    small, f = shrink(case, f0)
    sig = signature(small, f)
    ctx.violation(sig, "%s at command #%d: %s" % (f["kind"], f["at"], json.dumps(f["what"], default=repr)[:500]),
                  {"history": small, "failure": f, "found_in": label,
                   "commands": [" ".join(cmd_argv(e)) for e in small["events"] if e["op"] == "cmd"]})


def run(ctx):
    rng = ctx.rng
    ctx.rule = ("histories of put/replace/touch/delete of genuine .tgz artifacts (3-12 artifacts, audit trails with shared, "
                "absent, cyclic and intermediate non-dist references, missing fields, equal sort keys) interleaved with "
                "scan/find/clean [-n] [--dry-run] [-f] commands whose expressions are rendered from ASTs of the documented "
                "grammar (LIMIT/ORDER BY/ASC/DESC, ill-typed and unparsable ones included); one evaluation = one command "
                "executed on the implementation; a command is non-trivial when it lists or deletes at least one artifact "
                "or rejects its query; distinct by (history, command index)")
    ctx.assumptions += [
        "sqlite3 is modelled (two tables; SELECT bid FROM files answered in PRIMARY KEY order), not verified; tied by the correspondence",
        "tar/gzip/json reading of audit trails is modelled as data (audit = vars + dependency records); tied by writing genuine artifacts",
        "the pyparsing grammar is not modelled: expression ASTs are rendered to text and parsed by the real grammar; unparsable texts are the model's RBad",
        "binStat is an abstract token: equal stat of the same file name implies equal content (hypothesis stat_faithful of the theorems)",
        "all BobError outcomes are one class; -v output, several archives (-a/-b) and unreadable/corrupt tar files are not modelled",
        "file names in the archive are lower-case hex build-ids as Bob writes them (one file per build-id)",
    ]
    ctx.trusted_base += ["harness/props/c19.py: artifact writer, expression renderer, output canonicalisation, declarative oracle"]
    if ctx.replay:
        return replay(ctx)
    n_hist = ctx.n(260, 6000)
    batch_sz = ctx.n(260, 600)
    todo = [(lbl, c) for lbl, c in load_corpus()]
    ctx.count("corpus", len(todo))
    for k in range(1, n_hist + 1):
        todo.append(("seed%d#%d" % (ctx.seed, k), gen_history(rng, maxn=ctx.n(12, 16), ncmd=ctx.n(7, 10))))
    batch = []
    # soft time budget for the implementation runs (the machine may be shared): corpus and a floor of
    # histories are always run, the rest of the budgeted histories only while time is left
    t_start = ctx.elapsed()
    budget = ctx.n(100, 1500)
    floor = len(todo) - n_hist + ctx.n(100, 300)
    from concurrent.futures import ProcessPoolExecutor
    with ProcessPoolExecutor(max_workers=WORKERS) as pool:
        futs = [pool.submit(run_case_safe, c) for _, c in todo]
        for k, ((label, case), fut) in enumerate(zip(todo, futs)):
            if k >= floor and ctx.elapsed() - t_start > budget:
                for f2 in futs[k:]:
                    f2.cancel()
                ctx.note("time budget of %ds for the implementation runs reached after %d of %d histories "
                         "(machine load); the remaining ones were skipped" % (budget, k, len(todo)))
                ctx.count("histories-skipped-for-time", len(todo) - k)
                break
            trace, fails, exc = fut.result()
            ctx.count("histories")
            if exc is not None:
                ctx.count("harness-exception")
                if not any(t["name"] == "harness-exception-in-history" for t in ctx.ties_broken):
                    ctx.tie_broken("harness-exception-in-history", {"label": label, "case": case, "traceback": exc})
                continue
            cmds = [e for e in case["events"] if e["op"] == "cmd"]
            ctx.evaluated(len(trace))
            for c, r in zip(cmds, trace):
                ctx.count("cmd:%s%s%s" % (c["cmd"], "-dry" if c.get("dry") else "", "-n" if c.get("noscan") else ""))
                ctx.count("status:" + r["status"])
                for ft in r.get("feat", []):
                    ctx.count("feature:" + ft)
            for i in nontrivial_cmds(case, trace):
                ctx.nontrivial((label, json.dumps(case, sort_keys=True), i))
            ctx.count("mutations:" + ",".join(sorted({e["op"] for e in case["events"] if e["op"] != "cmd"})))
            if len(ctx.cov["samples"]) < 3:
                ctx.sample({"commands": [" ".join(cmd_argv(e)) for e in cmds][:4],
                            "artifacts": len({e["name"] for e in case["events"] if e["op"] == "put"}),
                            "first_results": [{k2: names(v) if isinstance(v, list) else v for k2, v in t.items()
                                               if k2 in ("status", "list", "survivors")} for t in trace[:2]]})
            if fails:
                ctx.count("oracle-failure:" + fails[0]["kind"])
                if len(ctx.violations) < 6:
                    report(ctx, label, case, fails)
            if not any(t["status"].startswith("internal") for t in trace):
                batch.append((label, case, trace))
            if len(batch) >= batch_sz:
                check_batch(ctx, batch)
                batch = []
    if batch:
        check_batch(ctx, batch)
    ctx.note("proved (Coq, unbounded): see theorems; exercised only by the correspondence: sqlite ordering, the pyparsing grammar, "
             "tar/gzip/json decoding of audit trails, file name <-> build-id mapping")


def replay(ctx):
    with open(ctx.replay) as f:
        d = json.load(f)
    c = d.get("case", d)
    case = c.get("history", c)
    trace, fails = run_case(case)
    ctx.evaluated(len(trace))
    for e, t in zip([e for e in case["events"] if e["op"] == "cmd"], trace):
        print("bob archive -l %s -> %s list=%s left=%s" % (" ".join(cmd_argv(e)), t["status"], names(t["list"]), names(t["survivors"])))
    for f in fails:
        print("oracle:", f["kind"], "at command", f["at"], json.dumps(f["what"], default=repr)[:400])
    if fails:
        ctx.violation(signature(case, fails[0]), "replayed: " + fails[0]["kind"], c)
    else:
        check_batch(ctx, [("replay", case, trace)])
