"""Constants of the artifact format, read from the current sources (fail-closed).

archive.py  TarHelper.__extractPackage : name classes, prefix slice, pax version key/value
archive.py  TarHelper._pack            : what is written (must be what is read)
builder.py                             : file name of the audit trail next to the workspace
utils.py    DirHasher                  : ignored directory / file names of hashDirectory
"""
import ast
from vlib.gen_consts import parse, find_def, coq_str, coq_strs, TieError

NAME = "ConstsC08"


def _consts(node):
    return [n.value for n in ast.walk(node) if isinstance(n, ast.Constant) and isinstance(n.value, str)]


def extract(out):
    t = parse("pym/bob/archive.py")
    f = find_def(t, "TarHelper.__extractPackage")
    # X.startswith("content/")
    pref = set()
    for n in ast.walk(f):
        if isinstance(n, ast.Call) and isinstance(n.func, ast.Attribute) and n.func.attr == "startswith":
            if len(n.args) != 1 or not isinstance(n.args[0], ast.Constant):
                raise TieError("__extractPackage: startswith() with a non literal argument")
            pref.add(n.args[0].value)
    if len(pref) != 1:
        raise TieError("__extractPackage: expected one literal prefix, got %r" % sorted(pref))
    prefix = pref.pop()
    # X[8:]
    slices = set()
    for n in ast.walk(f):
        if isinstance(n, ast.Subscript) and isinstance(n.slice, ast.Slice):
            s = n.slice
            if s.upper is not None or s.step is not None or not isinstance(s.lower, ast.Constant):
                raise TieError("__extractPackage: unexpected slice")
            slices.add(s.lower.value)
    if len(slices) != 1:
        raise TieError("__extractPackage: expected one slice start, got %r" % sorted(slices))
    # f.name == "..."
    eqs = []
    for n in ast.walk(f):
        if isinstance(n, ast.Compare) and len(n.ops) == 1 and isinstance(n.ops[0], ast.Eq) \
                and isinstance(n.left, ast.Attribute) and n.left.attr == "name" \
                and isinstance(n.comparators[0], ast.Constant):
            eqs.append(n.comparators[0].value)
    if len(eqs) != 3 or not eqs[0].endswith(".json.gz"):
        raise TieError("__extractPackage: expected name comparisons [audit, content, meta], got %r" % eqs)
    # tar.pax_headers.get(KEY, default) != VALUE
    vsn = None
    for n in ast.walk(f):
        if isinstance(n, ast.Compare) and len(n.ops) == 1 and isinstance(n.ops[0], ast.NotEq) \
                and isinstance(n.left, ast.Call) and isinstance(n.left.func, ast.Attribute) and n.left.func.attr == "get":
            a = n.left.args
            if len(a) == 2 and all(isinstance(x, ast.Constant) for x in a) and isinstance(n.comparators[0], ast.Constant):
                vsn = (a[0].value, a[1].value, n.comparators[0].value)
    if vsn is None or vsn[1] == vsn[2]:
        raise TieError("__extractPackage: pax version check not found")
    out.append("Definition CONTENT_PREFIX : list N := %s." % coq_str(prefix))
    out.append("Definition PREFIX_SLICE : nat := %d%%nat." % next(iter(slices)))
    out.append("Definition AUDIT_NAME : list N := %s." % coq_str(eqs[0]))
    out.append("Definition CONTENT_NAME : list N := %s." % coq_str(eqs[1]))
    out.append("Definition META_NAME : list N := %s." % coq_str(eqs[2]))
    out.append("Definition VSN_KEY : list N := %s." % coq_str(vsn[0]))
    out.append("Definition VSN_ONE : list N := %s." % coq_str(vsn[2]))
    # _pack
    p = find_def(t, "TarHelper._pack")
    pax = [n for n in ast.walk(p) if isinstance(n, ast.Dict)]
    if len(pax) != 1 or len(pax[0].keys) != 1 or not all(isinstance(x, ast.Constant) for x in pax[0].keys + pax[0].values):
        raise TieError("_pack: pax header dict not found")
    adds = [n for n in ast.walk(p) if isinstance(n, ast.Call) and isinstance(n.func, ast.Attribute) and n.func.attr == "add"]
    if len(adds) != 2:
        raise TieError("_pack: expected two tar.add() calls")
    meta_prefix = [c for c in _consts(adds[0])]
    arc = [c for c in _consts(adds[1])]
    if len(meta_prefix) != 1 or len(arc) != 1:
        raise TieError("_pack: unexpected tar.add() arguments")
    b = parse("pym/bob/builder.py")
    audits = sorted(set(c for c in _consts(b) if c.startswith("audit") and c.endswith(".json.gz")))
    if audits != ["audit.json.gz"]:
        raise TieError("builder.py: audit file name(s) %r" % audits)
    out.append("Definition PACK_VSN_KEY : list N := %s." % coq_str(pax[0].keys[0].value))
    out.append("Definition PACK_VSN : list N := %s." % coq_str(pax[0].values[0].value))
    out.append("Definition PACK_AUDIT_NAME : list N := %s." % coq_str(meta_prefix[0] + audits[0]))
    out.append("Definition PACK_CONTENT_NAME : list N := %s." % coq_str(arc[0]))
    # DirHasher
    u = parse("pym/bob/utils.py")
    cls = find_def(u, "DirHasher")
    got = {}
    for node in cls.body:
        if isinstance(node, ast.Assign) and isinstance(node.targets[0], ast.Name) and node.targets[0].id in ("IGNORE_DIRS", "IGNORE_FILES"):
            got[node.targets[0].id] = _consts(node.value)
    if set(got) != {"IGNORE_DIRS", "IGNORE_FILES"}:
        raise TieError("DirHasher.IGNORE_DIRS / IGNORE_FILES not found")
    out.append("Definition HASH_IGNORE_DIRS : list (list N) := %s." % coq_strs(got["IGNORE_DIRS"]))
    out.append("Definition HASH_IGNORE_FILES : list (list N) := %s." % coq_strs(got["IGNORE_FILES"]))
