"""Constants translator for C20: reads the job-name character class, the
replacement character, the separator of the prefix naming and the numbering
format from the *current* pym/bob/cmds/jenkins/jenkins.py and writes
coq/Gen/ConstsC20.v.  Fail-closed."""
import ast, re
from vlib.gen_consts import parse, find_def, TieError, coq_str

NAME = "ConstsC20"


def _calls(fn, attr):
    return [n for n in ast.walk(fn) if isinstance(n, ast.Call) and isinstance(n.func, ast.Attribute)
            and n.func.attr == attr]


def extract(out):
    t = parse("pym/bob/cmds/jenkins/jenkins.py")
    init = find_def(t, "JobNameCalculator.__init__")
    comp = [c for c in _calls(init, "compile")]
    if len(comp) != 1 or not comp[0].args or not isinstance(comp[0].args[0], ast.Constant) \
            or not isinstance(comp[0].args[0].value, str):
        raise TieError("JobNameCalculator.__init__: expected exactly one re.compile(<literal>)")
    pattern = comp[0].args[0].value
    flags = 0
    for a in comp[0].args[1:]:
        if isinstance(a, ast.Attribute) and isinstance(a.value, ast.Name) and a.value.id == "re" and hasattr(re, a.attr):
            flags |= getattr(re, a.attr)
        else:
            raise TieError("JobNameCalculator.__init__: unexpected regex flag " + ast.dump(a))
    if comp[0].keywords:
        raise TieError("JobNameCalculator.__init__: unexpected keyword arguments of re.compile")
    rx = re.compile(pattern, flags)
    # the model treats the substitution character-wise: the pattern must match single characters only
    for probe in ("ab", "a.", "..", "\n\n", "A_", "--"):
        for m in rx.finditer(probe):
            if len(m.group(0)) != 1:
                raise TieError("job name regex %r matches more than single characters" % pattern)
    if rx.match(""):
        raise TieError("job name regex %r matches the empty string" % pattern)
    keep = [c for c in range(0x110000) if not rx.match(chr(c))]
    if len(keep) > 4096:
        raise TieError("job name regex %r keeps %d characters (expected a small class)" % (pattern, len(keep)))

    f = find_def(t, "JobNameCalculator.getJobInternalName")
    src = ast.unparse(f)
    subs = _calls(f, "sub")
    if len(subs) != 1 or len(subs[0].args) != 2 or not isinstance(subs[0].args[0], ast.Constant) \
            or not isinstance(subs[0].args[0].value, str):
        raise TieError("getJobInternalName: expected <regex>.sub(<literal>, <display name>)")
    repl = subs[0].args[0].value
    if "\\" in repl:
        raise TieError("getJobInternalName: replacement %r uses escapes" % repl)
    lows = _calls(f, "lower")
    if len(lows) != 1 or lows[0].func.value is not subs[0] or "getJobDisplayName" not in src:
        raise TieError("getJobInternalName no longer has the shape regex.sub(repl, getJobDisplayName(step)).lower()")
    chars = sorted(set(keep) | set(ord(c) for c in repl))
    lower = [(c, chr(c).lower()) for c in chars if chr(c).lower() != chr(c)]

    f = find_def(t, "JobNameCalculator.getJobDisplayName")
    if "self.__prefix + self.__packageName[vid]" not in ast.unparse(f).replace("_JobNameCalculator", ""):
        raise TieError("getJobDisplayName no longer returns prefix + packageName[vid]")

    f = find_def(t, "JobNameCalculator.sanitize")
    splits = [c for c in _calls(f, "split")]
    joins = [c for c in _calls(f, "join")]
    fmts = [c for c in _calls(f, "format")]
    if len(splits) != 1 or len(splits[0].args) != 1 or not isinstance(splits[0].args[0], ast.Constant):
        raise TieError("sanitize: expected exactly one <name>.split(<literal>)")
    sep = splits[0].args[0].value
    if len(joins) != 1 or not isinstance(joins[0].func.value, ast.Constant) or joins[0].func.value.value != sep:
        raise TieError("sanitize: prefix parts are no longer joined with the split separator")
    if len(sep) != 1:
        raise TieError("sanitize: separator %r is not a single character" % sep)
    if len(fmts) != 1 or not isinstance(fmts[0].func.value, ast.Constant) or fmts[0].func.value.value != "{}" + sep + "{}":
        raise TieError("sanitize: numbering format is no longer '{}%s{}'" % sep)
    a = fmts[0].args
    if len(a) != 2 or ast.unparse(a[1]).replace(" ", "") != "i+1":
        raise TieError("sanitize: numbering no longer starts at i+1")

    out.append("(* consts_c20: JobNameCalculator of pym/bob/cmds/jenkins/jenkins.py *)")
    out.append("(* job name regex: %s *)" % pattern.replace("*)", "* )"))
    out.append("Definition JOBNAME_KEEP : list N := [%s]." % ";".join(map(str, keep)))
    out.append("Definition JOBNAME_REPL : list N := %s." % coq_str(repl))
    out.append("Definition JOBNAME_LOWER : list (N * list N) := [%s]." %
               "; ".join("(%d, %s)" % (c, coq_str(l)) for c, l in lower))
    out.append("Definition NAME_SEP : N := %d." % ord(sep))
