"""C19 constants translator: reads pym/bob/cmds/archive.py of the *current*
repository and emits coq/Gen/ConstsC19.v.  Fail-closed (TieError) when the
source no longer has the expected shape."""
import ast
from vlib.gen_consts import parse, find_def, coq_str, coq_strs, TieError

NAME = "ConstsC19"
SRC = "pym/bob/cmds/archive.py"


def facts():
    """returns dict(default_sort=[...], dir_schema=str, file_schema=str, db_name=str)"""
    t = parse(SRC)
    # default sort key of RetainExpression
    f = find_def(t, "RetainExpression.__init__")
    keys = []
    for n in ast.walk(f):
        if isinstance(n, ast.Call) and isinstance(n.func, ast.Name) and n.func.id == "VarReference":
            if len(n.args) == 3 and isinstance(n.args[2], ast.List) and len(n.args[2].elts) == 1 \
                    and isinstance(n.args[2].elts[0], ast.Constant) and isinstance(n.args[2].elts[0].value, str):
                keys.append(n.args[2].elts[0].value)
    if len(keys) != 1:
        raise TieError("RetainExpression.__init__: expected one default VarReference([...]) sort key, got %r" % keys)
    f = find_def(t, "VarReference.__init__")
    if "split('.')" not in ast.unparse(f):
        raise TieError("VarReference.__init__ no longer splits the field path at '.'")
    # file name schemas and database name of the scanner
    f = find_def(t, "ArchiveScanner.__init__")
    vals = {}
    for n in ast.walk(f):
        if isinstance(n, ast.Assign) and len(n.targets) == 1 and isinstance(n.targets[0], ast.Attribute):
            nm = n.targets[0].attr
            v = n.value
            if isinstance(v, ast.Call) and isinstance(v.func, ast.Attribute) and v.func.attr == "compile" \
                    and len(v.args) == 1 and isinstance(v.args[0], ast.Constant):
                vals[nm] = v.args[0].value
            elif isinstance(v, ast.Constant) and isinstance(v.value, str):
                vals[nm] = v.value
    for k in ("__dirSchema", "__archiveSchema", "__dbName"):
        if k not in vals:
            raise TieError("ArchiveScanner.__init__: %s is not a literal any more" % k)
    return {"default_sort": keys[0].split("."), "dir_schema": vals["__dirSchema"],
            "file_schema": vals["__archiveSchema"], "db_name": vals["__dbName"]}


def extract(out):
    f = facts()
    out.append("(* consts_c19: %s *)" % SRC)
    out.append("Definition DEFAULT_SORT : list (list N) := %s." % coq_strs(f["default_sort"]))
    out.append("Definition DIR_SCHEMA : list N := %s." % coq_str(f["dir_schema"]))
    out.append("Definition FILE_SCHEMA : list N := %s." % coq_str(f["file_schema"]))
    out.append("Definition DB_NAME : list N := %s." % coq_str(f["db_name"]))
