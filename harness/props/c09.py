"""C09 — archive uploads are atomic and never overwrite (file backend).

Three parts, all on the implementation imported from core.REPO/pym as it is now:

 (1) deterministic interleavings: N "processes" (threads running the real
     BaseArchive._uploadPackage / _uploadLocalFile / _downloadPackage(+caches))
     on one archive directory.  Every file-system operation of the upload path
     (os.stat, os.makedirs, NamedTemporaryFile, write, close, os.chmod, os.link,
     os.replace, os.rename, os.unlink, open, read) is a scheduling point: a
     process only performs its next operation when the scheduler picks it, so a
     generated schedule (with injected OSErrors and kills) is executed exactly.
     The same schedule is evaluated on the Coq model (BobV.C09.Model.observe,
     vm_compute) and operation trace, final files and process outcomes are
     compared.
 (2) the property oracle, independent of the model, on the same runs: after
     every step each artifact name is absent or holds the complete output of one
     finished packer (mirror: the bytes of the source artifact), valid gzip/tar,
     and never changes inode, bytes or mode once present.
 (3) real multi-process stress: forked uploaders with different payloads plus
     readers on one build-id, SIGKILL at random points.
"""
import errno, gzip, hashlib, io, json, os, shutil, signal, stat, sys, tarfile, threading, time, glob
from vlib import coq, core, coqlit as L

PROPERTY_FILES = ["C09/Properties.v"]

SFX = {0: ".buildid", 1: ".fprnt"}


class Killed(BaseException):
    """raised inside a process thread at teardown; never seen by the implementation as an error"""


# ------------------------------------------------------------------ implementation access
def _bob():
    import bob.archive as A
    return A


def bid_bytes(b):
    return b.to_bytes(20, "big")


def dest_path(root, b, suffix=".tgz"):
    h = bid_bytes(b).hex()
    return os.path.join(root, h[0:2], h[2:4], h[4:] + "-1" + suffix)


# ------------------------------------------------------------------ the hooked world
_tls_world = None          # the World whose hooks are active (one at a time)
_real = {}


def _cur():
    w = _tls_world
    if w is None:
        return None
    return w.by_thread.get(threading.get_ident())


class Proc:
    def __init__(self, world, pid, job):
        self.world, self.pid, self.job = world, pid, job
        self.go = threading.Semaphore(0)
        self.arrived = threading.Semaphore(0)
        self.state = "new"          # new | blocked | done | dead
        self.next_op = None
        self.fault = False
        self.kill = False
        self.suppress = 0
        self.writes = []            # (bytes, ok) write attempts on the temporary file
        self.tmpname = None
        self.pack_returned = False  # _pack (or the metadata write) returned normally
        self.src_reads = []         # mirror: non-empty results of reads of the source stream
        self.consumed = None        # mirror: number of source reads when the consumer returned / raised
        self.consumer_ok = None
        self.src_failed = False
        self.read_acc = b""         # reader: bytes read from the archive under test
        self.result = None          # ("ok"|"skipped"|"fail"|"notfound"|"read", detail)
        self.linked = False
        self.thread = None

    # called in the process thread right before an operation
    def point(self, op):
        if self.kill:
            raise Killed()
        self.next_op = op
        self.state = "blocked"
        self.arrived.release()
        self.go.acquire()
        if self.kill:
            raise Killed()
        self.state = "running"
        return self.fault


class World:
    """one archive directory under test + a static source archive for mirrors"""

    def __init__(self, scratch, jobs):
        self.scratch = scratch
        self.root = os.path.join(scratch, "C")
        self.src_root = os.path.join(scratch, "A")
        self.jobs = jobs
        self.procs = []
        self.by_thread = {}
        self.trace = []             # observed operations (python tuples)
        self.tmp_ids = {}           # temporary path -> (dir, k)
        self.next_tmp = 0
        self.tmp_owner = {}
        self.torn_down = False

    def inside(self, path):
        try:
            p = os.fspath(path)
        except TypeError:
            return False
        if isinstance(p, bytes):
            p = os.fsdecode(p)
        return p == self.root or p.startswith(self.root + os.sep)

    def inside_src(self, path):
        try:
            p = os.fspath(path)
        except TypeError:
            return False
        if isinstance(p, bytes):
            p = os.fsdecode(p)
        return p.startswith(self.src_root + os.sep)

    # path -> model name (python tuple)
    def name_of(self, path):
        path = os.fspath(path)
        if path in self.tmp_ids:
            d, k = self.tmp_ids[path]
            return ("tmp", d, k)
        rel = os.path.relpath(path, self.root)
        parts = rel.split(os.sep)
        if len(parts) == 3 and len(parts[0]) == 2 and len(parts[1]) == 2:
            leaf = parts[2]
            for sfx, kind in ((".tgz", None), (".buildid", 0), (".fprnt", 1)):
                if leaf.endswith("-1" + sfx) and len(leaf) == 36 + 2 + len(sfx):
                    try:
                        b = int(parts[0] + parts[1] + leaf[:36], 16)
                    except ValueError:
                        break
                    return ("dest", b) if kind is None else ("meta", b, kind)
        return ("other", rel)

    def dir_of(self, path):
        rel = os.path.relpath(os.fspath(path), self.root)
        parts = rel.split(os.sep)
        if len(parts) == 2 and len(parts[0]) == 2 and len(parts[1]) == 2:
            try:
                return int(parts[0] + parts[1], 16)
            except ValueError:
                pass
        return None


def _wrap_simple(fname, handler):
    real = _real[fname]

    def hooked(*a, **kw):
        pr = _cur()
        if pr is None or pr.suppress:
            return real(*a, **kw)
        return handler(pr, real, *a, **kw)
    hooked.__name__ = "bobv_" + fname
    return hooked


def _io_error():
    return OSError(errno.EIO, "injected I/O error")


def h_stat(pr, real, path, *a, **kw):
    w = pr.world
    if not w.inside(path):
        return real(path, *a, **kw)
    fault = pr.point(("stat", path))
    d = w.dir_of(path)
    try:
        if fault:
            raise _io_error()
        r = real(path, *a, **kw)
    except OSError:
        w.trace.append(("isdir", d, False) if d is not None else ("isfile", w.name_of(path), False))
        raise
    if d is not None:
        w.trace.append(("isdir", d, stat.S_ISDIR(r.st_mode)))
    else:
        w.trace.append(("isfile", w.name_of(path), stat.S_ISREG(r.st_mode)))
    return r


def h_makedirs(pr, real, path, *a, **kw):
    w = pr.world
    if not w.inside(path):
        return real(path, *a, **kw)
    fault = pr.point(("makedirs", path))
    d = w.dir_of(path)
    pr.suppress += 1
    try:
        if fault:
            raise _io_error()
        r = real(path, *a, **kw)
    except OSError:
        w.trace.append(("mkdirs", d, False))
        raise
    finally:
        pr.suppress -= 1
    w.trace.append(("mkdirs", d, True))
    return r


def h_mkdir(pr, real, path, *a, **kw):
    w = pr.world
    if not w.inside(path):
        return real(path, *a, **kw)
    pr.point(("mkdir", path))
    w.trace.append(("other-op", "mkdir"))
    return real(path, *a, **kw)


def _path_op(kind):
    def h(pr, real, path, *a, **kw):
        w = pr.world
        if not w.inside(path):
            return real(path, *a, **kw)
        fault = pr.point((kind, path))
        n = w.name_of(path)
        try:
            if fault:
                raise _io_error()
            r = real(path, *a, **kw)
        except OSError:
            w.trace.append((kind, n, a[0] if kind == "chmod" and a else 0, False) if kind == "chmod" else (kind, n, False))
            raise
        w.trace.append((kind, n, a[0] if a else kw.get("mode", 0), True) if kind == "chmod" else (kind, n, True))
        return r
    return h


def _two_path_op(kind):
    def h(pr, real, src, dst, *a, **kw):
        w = pr.world
        if not (w.inside(src) or w.inside(dst)):
            return real(src, dst, *a, **kw)
        fault = pr.point((kind, src, dst))
        s, d = w.name_of(src), w.name_of(dst)
        try:
            if fault:
                raise OSError(errno.EPERM, "injected error")
            r = real(src, dst, *a, **kw)
        except FileExistsError:
            w.trace.append((kind, s, d, 1))
            raise
        except OSError:
            w.trace.append((kind, s, d, 2))
            raise
        w.trace.append((kind, s, d, 0))
        if kind == "link":
            pr.linked = True
        return r
    return h


class WriteProxy:
    """the object handed out instead of NamedTemporaryFile's: same file, every write/close is a scheduling point"""

    def __init__(self, pr, f):
        object.__setattr__(self, "_pr", pr)
        object.__setattr__(self, "_f", f)
        object.__setattr__(self, "_closed_once", False)

    def __getattr__(self, k):
        return getattr(self._f, k)

    @property
    def name(self):
        return self._f.name

    def write(self, data):
        pr = self._pr
        data = bytes(data)
        if _cur() is not pr or pr.kill:      # garbage collection of a killed process' objects
            return len(data)
        fault = pr.point(("write", self._f.name))
        n = pr.world.name_of(self._f.name)
        if fault:
            pr.writes.append((data, False))
            pr.world.trace.append(("write", n, len(data), False))
            raise OSError(errno.ENOSPC, "injected: no space left on device")
        r = self._f.write(data)
        self._f.flush()     # model granularity: a write() is visible at once (buffering only coarsens this)
        pr.writes.append((data, True))
        pr.world.trace.append(("write", n, len(data), True))
        return r

    def close(self):
        pr = self._pr
        if self._closed_once or _cur() is not pr or pr.kill:
            return self._f.close()
        object.__setattr__(self, "_closed_once", True)
        fault = pr.point(("close", self._f.name))
        n = pr.world.name_of(self._f.name)
        if fault:
            pr.world.trace.append(("close", n, False))
            raise _io_error()
        r = self._f.close()
        pr.world.trace.append(("close", n, True))
        return r

    def __enter__(self):
        return self

    def __exit__(self, *a):
        self.close()
        return False


class ReadProxy:
    """open(<artifact in the archive under test>, 'rb'): reads are scheduling points"""

    def __init__(self, pr, f):
        self._pr, self._f = pr, f

    def __getattr__(self, k):
        return getattr(self._f, k)

    def read(self, size=-1):
        pr = self._pr
        if _cur() is not pr or pr.kill:
            return b""
        fault = pr.point(("read", size))
        if fault:
            pr.world.trace.append(("read", 0))
            raise _io_error()
        r = self._f.read(size)
        pr.read_acc += r
        pr.world.trace.append(("read", len(r)))
        return r

    def close(self):
        return self._f.close()

    def __enter__(self):
        return self

    def __exit__(self, *a):
        self._f.close()
        return False


class SrcProxy:
    """open(<artifact in the static source archive>): not part of the archive under test; records the stream"""

    def __init__(self, pr, f):
        self._pr, self._f = pr, f

    def __getattr__(self, k):
        return getattr(self._f, k)

    def read(self, size=-1):
        pr = self._pr
        fail_at = pr.job.get("src_fail_at")
        if fail_at is not None and len(pr.src_reads) >= fail_at:
            pr.src_failed = True
            raise _io_error()
        r = self._f.read(size)
        if r:
            pr.src_reads.append(r)
        return r

    def close(self):
        return self._f.close()

    def __enter__(self):
        return self

    def __exit__(self, *a):
        self._f.close()
        return False


def h_open(file, mode="r", *a, **kw):
    """bob.archive.open"""
    pr = _cur()
    if pr is None or pr.suppress:
        return _real["open"](file, mode, *a, **kw)
    w = pr.world
    if isinstance(file, (str, bytes, os.PathLike)) and w.inside_src(file):
        return SrcProxy(pr, _real["open"](file, mode, *a, **kw))
    if not (isinstance(file, (str, bytes, os.PathLike)) and w.inside(file)):
        return _real["open"](file, mode, *a, **kw)
    n = w.name_of(file)
    if "r" in mode and "+" not in mode:
        fault = pr.point(("open", file))
        try:
            if fault:
                raise _io_error()
            f = _real["open"](file, mode, *a, **kw)
        except OSError:
            w.trace.append(("open", n, False))
            raise
        w.trace.append(("open", n, True))
        return ReadProxy(pr, f)
    # any other way of opening a name of the archive under test for writing is not part of the protocol
    pr.point(("open-w", file))
    w.trace.append(("other-op", "open:" + mode + ":" + n[0]))
    f = _real["open"](file, mode, *a, **kw)
    if "b" in mode:
        # not a trace of the model any more, but the search for a failing schedule goes on: writes through this
        # descriptor are scheduling points like those of the protocol's temporary file (seed C09-3)
        return WriteProxy(pr, f)
    return f


def h_named_tmp(*a, **kw):
    pr = _cur()
    if pr is None or pr.suppress:
        return _real["NamedTemporaryFile"](*a, **kw)
    w = pr.world
    d = kw.get("dir")
    if d is None or not w.inside(d):
        return _real["NamedTemporaryFile"](*a, **kw)
    fault = pr.point(("mktemp", d))
    dn = w.dir_of(d)
    k = w.next_tmp
    w.next_tmp += 1
    pr.suppress += 1
    try:
        if fault:
            raise _io_error()
        f = _real["NamedTemporaryFile"](*a, **kw)
    except OSError:
        w.trace.append(("mktemp", ("tmp", dn, k), False))
        raise
    finally:
        pr.suppress -= 1
    if w.name_of(f.name)[0] != "other":
        w.trace.append(("other-op", "temporary name looks like an artifact name: " + os.path.basename(f.name)))
    w.tmp_ids[f.name] = (dn, k)
    w.tmp_owner[(dn, k)] = pr.pid
    pr.tmpname = f.name
    w.trace.append(("mktemp", ("tmp", dn, k), True))
    return WriteProxy(pr, f)


_PATCHED = False
_install_lock = threading.Lock()


def install_hooks():
    """global patches; inert for every thread that is not a registered process thread"""
    global _PATCHED
    A = _bob()
    if _PATCHED:
        return
    import builtins, tempfile
    for nm in ("stat", "makedirs", "mkdir", "chmod", "link", "unlink", "remove", "replace", "rename"):
        _real[nm] = getattr(os, nm)
    _real["open"] = builtins.open
    _real["NamedTemporaryFile"] = getattr(A, "NamedTemporaryFile", tempfile.NamedTemporaryFile)
    _real["had_NamedTemporaryFile"] = hasattr(A, "NamedTemporaryFile")
    _real["signal"] = signal.signal
    os.stat = _wrap_simple("stat", h_stat)
    os.makedirs = _wrap_simple("makedirs", h_makedirs)
    os.mkdir = _wrap_simple("mkdir", h_mkdir)
    os.chmod = _wrap_simple("chmod", _path_op("chmod"))
    os.unlink = _wrap_simple("unlink", _path_op("unlink"))
    os.remove = _wrap_simple("remove", _path_op("unlink"))
    os.link = _wrap_simple("link", _two_path_op("link"))
    os.replace = _wrap_simple("replace", _two_path_op("replace"))
    os.rename = _wrap_simple("rename", _two_path_op("rename"))
    A.open = h_open
    A.NamedTemporaryFile = h_named_tmp

    def h_signal(*a, **kw):       # signal.signal only works in the main thread (the unit tests patch it out too)
        if _cur() is not None:
            return None
        return _real["signal"](*a, **kw)
    signal.signal = h_signal
    _PATCHED = True


def uninstall_hooks():
    global _PATCHED
    if not _PATCHED:
        return
    A = _bob()
    for nm in ("stat", "makedirs", "mkdir", "chmod", "link", "unlink", "remove", "replace", "rename"):
        setattr(os, nm, _real[nm])
    try:
        del A.open
    except AttributeError:
        pass
    if _real.get("had_NamedTemporaryFile", True):
        A.NamedTemporaryFile = _real["NamedTemporaryFile"]
    else:
        try:
            del A.NamedTemporaryFile
        except AttributeError:
            pass
    signal.signal = _real["signal"]
    _PATCHED = False


# ------------------------------------------------------------------ jobs (run in process threads)
def _spec(root, job, cache=False):
    flags = ["upload", "download"]
    if cache:
        flags.append("cache")
    if job.get("nofail"):
        flags.append("nofail")
    sp = {"backend": "file", "path": root, "flags": flags}
    if job.get("mode") is not None:
        sp["fileMode"] = job["mode"]
    return sp


def _enable(arch):
    arch.wantDownloadLocal(True)
    arch.wantUploadLocal(True)
    return arch


def marker_of(job, pid):
    return ("payload-of-%d-%d" % (pid, job.get("content", 0))).encode()


def make_workspace(w, pid, job, rng_bytes=None):
    ws = os.path.join(w.scratch, "ws%d" % pid)
    os.makedirs(os.path.join(ws, "content"))
    if not job.get("pack_fail"):
        with open(os.path.join(ws, "audit.json.gz"), "wb") as f:
            f.write(b"AUDIT")
    with open(os.path.join(ws, "content", "data"), "wb") as f:
        f.write(marker_of(job, pid))
        if rng_bytes:
            f.write(rng_bytes)
    return ws


def job_main(pr):
    A = _bob()
    from bob.errors import BuildError
    from bob.tty import SKIPPED, EXECUTED, ERROR
    w, j = pr.world, pr.job
    w.by_thread[threading.get_ident()] = pr
    ws = os.path.join(w.scratch, "ws%d" % pr.pid)
    b = bid_bytes(j["bid"])
    try:
        try:
            if j["kind"] == "upload":
                arch = _enable(A.LocalArchive(_spec(w.root, j)))
                orig = arch._pack

                def pack(*a, **kw):
                    r = orig(*a, **kw)
                    pr.pack_returned = True
                    return r
                arch._pack = pack
                msg, kind = A.BaseArchive._uploadPackage(arch, b, A.ARTIFACT_SUFFIX, os.path.join(ws, "audit.json.gz"),
                                                         os.path.join(ws, "content"))
                pr.result = ("skipped" if kind is SKIPPED else "ok" if kind is EXECUTED else "fail", str(msg))
            elif j["kind"] == "meta":
                arch = _enable(A.LocalArchive(_spec(w.root, j)))
                sfx = A.BUILDID_SUFFIX if j["sfx"] == 0 else A.FINGERPRINT_SUFFIX
                msg, kind = A.BaseArchive._uploadLocalFile(arch, b, sfx, marker_of(j, pr.pid))
                pr.result = ("ok" if kind is EXECUTED else "fail", str(msg))
            elif j["kind"] == "mirror":
                src = _enable(A.LocalArchive(_spec(w.src_root, {})))
                cache = _enable(A.LocalArchive(_spec(w.root, j, cache=True)))
                orig = src._extract

                def extract(fo, audit, content):
                    try:
                        r = orig(fo, audit, content)
                        pr.consumer_ok = True
                        return r
                    except BaseException:
                        pr.consumer_ok = False
                        raise
                    finally:
                        pr.consumed = len(pr.src_reads)
                src._extract = extract
                ret = A.BaseArchive._downloadPackage(src, b, A.ARTIFACT_SUFFIX, os.path.join(ws, "out.audit"),
                                                     os.path.join(ws, "out"), [cache], "ws")
                pr.result = ("mirror", bool(ret[0]))
            elif j["kind"] == "read":
                arch = _enable(A.LocalArchive(_spec(w.root, j)))
                ret = A.BaseArchive._downloadPackage(arch, b, A.ARTIFACT_SUFFIX, os.path.join(ws, "out.audit"),
                                                     os.path.join(ws, "out"), [], "ws")
                if ret[0]:
                    with _real["open"](os.path.join(ws, "out", "data"), "rb") as f:
                        pr.result = ("read", f.read()[:64].decode("latin1"))
                else:
                    pr.result = ("notfound" if "not found" in str(ret[1]) else "fail", str(ret[1]))
            else:
                raise AssertionError(j["kind"])
        except BuildError as e:
            pr.result = ("mirror", False) if j["kind"] == "mirror" else ("fail", str(e)[:200])
        pr.state = "done"
    except Killed:
        pr.state = "dead"
    except BaseException as e:           # anything else is an internal error of the implementation (or of the harness)
        import traceback
        pr.result = ("internal", "%s: %s" % (type(e).__name__, traceback.format_exc()[-1500:]))
        pr.state = "done"
    finally:
        w.by_thread.pop(threading.get_ident(), None)
        pr.arrived.release()


# ------------------------------------------------------------------ scheduler
def prepare_world(scratch, jobs, extra=None):
    """directories, workspaces and the static source artifacts (main thread, hooks inert)"""
    A = _bob()
    w = World(scratch, jobs)
    os.makedirs(w.root)
    os.makedirs(w.src_root)
    w.src_bytes = {}
    for pid, j in enumerate(jobs):
        big = None
        if j["kind"] == "mirror":
            # source artifact, produced by the real uploader
            src = _enable(A.LocalArchive(_spec(w.src_root, {})))
            sp = dest_path(w.src_root, j["bid"])
            if not os.path.exists(sp):
                import random as _r
                size = j.get("src_size", 0)
                for attempt in range(10):
                    rb = _r.Random(j.get("src_seed", 1)).randbytes(size) if size else None
                    sws = os.path.join(scratch, "srcws%d_%d" % (pid, attempt))
                    os.makedirs(os.path.join(sws, "content"))
                    with open(os.path.join(sws, "audit.json.gz"), "wb") as f:
                        f.write(b"AUDIT")
                    with open(os.path.join(sws, "content", "data"), "wb") as f:
                        f.write(b"source-of-%d" % (j["bid"] % 1000))
                        if rb:
                            f.write(rb)
                    A.BaseArchive._uploadPackage(src, bid_bytes(j["bid"]), A.ARTIFACT_SUFFIX,
                                                 os.path.join(sws, "audit.json.gz"), os.path.join(sws, "content"))
                    if not j.get("src_tail"):
                        break
                    # make the last bytes of the artifact start a new 10240-byte read unit of the tar stream reader
                    r = (os.path.getsize(sp) - 512) % 10240
                    if 1 <= r <= 20:
                        break
                    delta = (8 - r) % 10240
                    if delta > 5120 and size + delta - 10240 > 10300:
                        delta -= 10240
                    size += delta
                    os.unlink(sp)
                if j.get("src_corrupt"):
                    raw = open(sp, "rb").read()
                    os.chmod(sp, 0o644)
                    with open(sp, "wb") as f:
                        f.write(raw[:len(raw) // 2] + b"\xff" * 40 + raw[len(raw) // 2 + 40:])
            w.src_bytes[j["bid"]] = open(sp, "rb").read()
        make_workspace(w, pid, j)
        w.procs.append(Proc(w, pid, j))
    return w


def start_world(w):
    global _tls_world
    _tls_world = w
    for pr in w.procs:
        t = threading.Thread(target=job_main, args=(pr,), daemon=True)
        pr.thread = t
        t.start()                      # the thread registers itself in w.by_thread before doing anything else
        pr.arrived.acquire()


def teardown_world(w):
    global _tls_world
    for pr in w.procs:
        if pr.state in ("blocked", "dead", "running"):
            pr.kill = True
            pr.go.release()
    for pr in w.procs:
        if pr.thread is not None:
            pr.thread.join(timeout=10)
    _tls_world = None
    w.torn_down = True


def live(w):
    return [pr for pr in w.procs if pr.state == "blocked"]


def label_for(w, pr, fault):
    op = pr.next_op
    k = 0
    if op[0] == "mktemp":
        k = w.next_tmp
    elif op[0] == "read":
        k = op[1] if isinstance(op[1], int) and op[1] > 0 else 0
    return ("step", pr.pid, bool(fault), k)


def do_step(w, pr, fault):
    lab = label_for(w, pr, fault)
    pr.fault = bool(fault)
    pr.go.release()
    pr.arrived.acquire()
    return lab


# ------------------------------------------------------------------ property oracle (independent of the model)
class Oracle:
    def __init__(self, w):
        self.w = w
        self.seen = {}          # bid -> (ino, mode, sha1, bytes)
        self.problems = []      # (signature, what)
        self.bids = sorted({j["bid"] for j in w.jobs})

    def complete_payloads(self, b):
        out = []
        for pr in self.w.procs:
            j = pr.job
            if j["bid"] != b:
                continue
            if j["kind"] == "upload" and pr.pack_returned and all(ok for _, ok in pr.writes):
                out.append(b"".join(d for d, _ in pr.writes))
            if j["kind"] == "mirror":
                out.append(self.w.src_bytes[b])
        return out

    def check(self, when):
        for b in self.bids:
            p = dest_path(self.w.root, b)
            try:
                st = os.lstat(p)
            except FileNotFoundError:
                st = None
            if st is None:
                if b in self.seen:
                    self.problems.append(("artifact-changed-after-publication", "artifact %x vanished at %s" % (b, when)))
                    del self.seen[b]
                continue
            if not stat.S_ISREG(st.st_mode):
                self.problems.append(("artifact-name-not-a-regular-file", "at %s" % when))
                continue
            with _real.get("open", open)(p, "rb") as f:
                raw = f.read()
            cur = (st.st_ino, stat.S_IMODE(st.st_mode), hashlib.sha1(raw).hexdigest())
            if b in self.seen:
                if self.seen[b][:3] != cur:
                    self.problems.append(("artifact-changed-after-publication",
                                          "artifact %x changed (ino, mode, sha1) %r -> %r at %s" % (b, self.seen[b][:3], cur, when)))
                    self.seen[b] = cur + (raw,)
                continue
            self.seen[b] = cur + (raw,)
            # first appearance: complete and valid
            comp = self.complete_payloads(b)
            if raw not in comp:
                srcs = [s for s in comp if s.startswith(raw)]
                mirrors = [pr for pr in self.w.procs if pr.job["kind"] == "mirror" and pr.job["bid"] == b]
                committed = [pr for pr in mirrors if pr.linked]
                if committed and not all(pr.consumer_ok and not pr.src_failed for pr in committed):
                    self.problems.append(("mirror-committed-although-the-stream-was-not-consumed",
                                          "cache copy of %x (%d bytes) was linked although the consumer / the source stream failed" % (b, len(raw))))
                elif mirrors and raw != self.w.src_bytes[b] and self.w.src_bytes[b].startswith(raw):
                    self.problems.append(("mirror-commits-truncated-copy:tail-unread-by-tar-reader",
                                          "cache copy of %x has %d bytes, the source artifact %d" % (b, len(raw), len(self.w.src_bytes[b]))))
                else:
                    self.problems.append(("artifact-incomplete-or-foreign-content",
                                          "artifact %x (%d bytes) at %s is not the complete output of any finished uploader" % (b, len(raw), when)))
            elif not valid_artifact(raw):
                # (a corrupted mirror source is copied faithfully only if the consumer accepted it)
                self.problems.append(("artifact-invalid-gzip-tar", "artifact %x is not a valid gzip/tar stream" % b))
            if not any(pr.linked for pr in self.w.procs if pr.job["bid"] == b and pr.job["kind"] in ("upload", "mirror")):
                self.problems.append(("artifact-present-but-no-upload-linked-it",
                                      "artifact %x appeared at %s without a successful link()" % (b, when)))


def valid_artifact(raw):
    try:
        data = gzip.decompress(raw)
        with tarfile.open(fileobj=io.BytesIO(data), mode="r:") as t:
            names = t.getnames()
        return "content" in names or any(n.startswith("content/") for n in names)
    except Exception:
        return False


# ------------------------------------------------------------------ running one scenario
def run_scenario(sc, rng=None):
    """sc = {"jobs": [...], "strategy": ..., "p_fault": x, "p_kill": y, "schedule": optional explicit list}
    returns a record with trace, labels, final files, outcomes and oracle problems"""
    scratch = core.scratch_dir("c09")
    w = None
    try:
        w = prepare_world(scratch, sc["jobs"])
        orc = Oracle(w)
        install_hooks()
        start_world(w)
        labels = []
        explicit = sc.get("schedule")
        strategy = sc.get("strategy", "random")
        pf, pk = sc.get("p_fault", 0.0), sc.get("p_kill", 0.0)
        fault_at = {tuple(x) for x in sc.get("fault_at", [])}     # (pid, index of that process' step)
        kill_at = {tuple(x) for x in sc.get("kill_at", [])}
        nsteps = {pr.pid: 0 for pr in w.procs}
        rr = 0
        idx = 0
        while True:
            lv = live(w)
            if explicit is not None:
                if idx >= len(explicit):
                    break
                e = explicit[idx]
                idx += 1
                pr = w.procs[e[1]]
                if pr.state != "blocked":
                    continue
                if e[0] == "kill":
                    pr.state = "dead"
                    labels.append(("kill", pr.pid))
                else:
                    labels.append(do_step(w, pr, e[2]))
                orc.check("step %d" % len(labels))
                continue
            if not lv or len(labels) > 4000:
                break
            if strategy == "sequential":
                pr = lv[0]
            elif strategy == "roundrobin":
                pr = lv[rr % len(lv)]
                rr += 1
            elif strategy == "barrier":
                # hold every process right before its publishing operation as long as another one can still move
                movable = [p for p in lv if p.next_op[0] not in ("link", "replace", "rename")]
                pr = rng.choice(movable) if movable else rng.choice(lv)
            else:
                pr = rng.choice(lv)
            key = (pr.pid, nsteps[pr.pid])
            if key in kill_at or (pk and rng.random() < pk):
                pr.state = "dead"
                labels.append(("kill", pr.pid))
            else:
                fault = key in fault_at or (pf and rng.random() < pf)
                nsteps[pr.pid] += 1
                labels.append(do_step(w, pr, fault))
            orc.check("step %d" % len(labels))
        # final snapshot
        names, files = [], []
        for b in orc.bids:
            names.append(("dest", b))
            for s_ in (0, 1):
                names.append(("meta", b, s_))
        for path, (d, k) in sorted(w.tmp_ids.items(), key=lambda x: x[1][1]):
            names.append(("tmp", d, k))
        for n in names:
            if n[0] == "dest":
                p = dest_path(w.root, n[1])
            elif n[0] == "meta":
                p = dest_path(w.root, n[1], SFX[n[2]])
            else:
                p = [q for q, v in w.tmp_ids.items() if v == (n[1], n[2])][0]
            try:
                st = os.lstat(p)
                with open(p, "rb") as f:
                    files.append((f.read(), stat.S_IMODE(st.st_mode)))
            except FileNotFoundError:
                files.append(None)
        owners = {}
        it_ = iter(w.trace)
        for l in labels:
            if l[0] == "step":
                t_ = next(it_)
                if t_[0] in ("link", "replace") and t_[3] == 0:
                    owners[t_[2]] = l[1]
        for (dn, k), pid_ in w.tmp_owner.items():
            owners[("tmp", dn, k)] = pid_
        rec = {"labels": labels, "trace": list(w.trace), "names": names, "files": files, "owners": owners,
               "procs": [{"state": pr.state, "result": pr.result, "writes": list(pr.writes), "linked": pr.linked,
                          "pack_returned": pr.pack_returned, "src_reads": list(pr.src_reads), "consumed": pr.consumed,
                          "consumer_ok": pr.consumer_ok, "src_failed": pr.src_failed, "read_acc": pr.read_acc,
                          "opened": any(t[0] == "open" and t[2] for t in w.trace) if pr.job["kind"] == "read" else False}
                         for pr in w.procs],
               "problems": list(orc.problems), "src_bytes": dict(w.src_bytes)}
        # reader oracle: an opened artifact extracts completely to the content of one uploader of that build-id
        for pr in w.procs:
            if pr.job["kind"] != "read" or pr.state != "done":
                continue
            opened = False
            it_ = iter(w.trace)
            for l in labels:
                if l[0] == "step":
                    t_ = next(it_)
                    if l[1] == pr.pid and t_[0] == "open" and t_[2]:
                        opened = True
            had_fault = any(l[0] == "step" and l[1] == pr.pid and l[2] for l in labels)
            if pr.result[0] == "internal":
                rec["problems"].append(("internal-exception", pr.result[1]))
            elif opened and not had_fault:
                ok_markers = {marker_of(q.job, q.pid).decode() for q in w.procs
                              if q.job["bid"] == pr.job["bid"] and q.job["kind"] == "upload"}
                ok_src = any(q.job["kind"] == "mirror" and q.job["bid"] == pr.job["bid"] for q in w.procs)
                if pr.result[0] != "read" or not (pr.result[1] in ok_markers or (ok_src and pr.result[1].startswith("source-of-"))):
                    rec["problems"].append(("reader-saw-incomplete-artifact", "reader %d got %r" % (pr.pid, pr.result)))
        for pr in w.procs:
            if pr.result and pr.result[0] == "internal" and pr.job["kind"] != "read":
                rec["problems"].append(("internal-exception", pr.result[1]))
        return rec
    finally:
        if w is not None:
            try:
                teardown_world(w)
            except Exception:
                pass
        shutil.rmtree(scratch, ignore_errors=True)


# ------------------------------------------------------------------ Coq literals
PREAMBLE = r"""
Definition ob (a b : obs) : bool :=
  match a, b with
  | ONone, ONone => true
  | OIsFile n r, OIsFile n' r' => name_eqb n n' && Bool.eqb r r'
  | OIsDir d r, OIsDir d' r' => (d =? d') && Bool.eqb r r'
  | OMkdirs d r, OMkdirs d' r' => (d =? d') && Bool.eqb r r'
  | OMkTemp n r, OMkTemp n' r' => name_eqb n n' && Bool.eqb r r'
  | OWrite n l r, OWrite n' l' r' => name_eqb n n' && (l =? l') && Bool.eqb r r'
  | OClose n r, OClose n' r' => name_eqb n n' && Bool.eqb r r'
  | OChmod n m r, OChmod n' m' r' => name_eqb n n' && (m =? m') && Bool.eqb r r'
  | OLink t n r, OLink t' n' r' => name_eqb t t' && name_eqb n n' && (r =? r')
  | OReplace t n r, OReplace t' n' r' => name_eqb t t' && name_eqb n n' && Bool.eqb r r'
  | OUnlink n r, OUnlink n' r' => name_eqb n n' && Bool.eqb r r'
  | OOpen n r, OOpen n' r' => name_eqb n n' && Bool.eqb r r'
  | ORead l, ORead l' => l =? l'
  | _, _ => false
  end.
Definition cls (o : option pc) : N :=
  match o with
  | None => 100
  | Some (PDone ROk) => 1 | Some (PDone RLost) => 1
  | Some (PDone RSkipped) => 2
  | Some (PDone RFail) => 3 | Some (PDone RFailPub) => 3
  | Some (PDone RNotFound) => 4
  | Some (PDone (RRead _)) => 5 | Some (PRead _ _) => 5
  | Some (PDead _) => 6
  | Some _ => 0
  end.
Definition cls_ok (m e : N) : bool := (m =? e) || ((e =? 99) && (1 <=? m) && (m <=? 5)).
Definition racc (o : option pc) : option data :=
  match o with Some (PRead _ a) => Some a | Some (PDone (RRead a)) => Some a | _ => None end.
Definition chk (i : list job * list lab * list name)
               (e : list obs * list (option (data * N)) * list N * list (option data)) : bool :=
  match i, e with
  | (js, ls, ns), (tr, fl, cs, rs) =>
      let o := observe js ls ns in
      eqb_list ob (o_trace o) tr &&
      eqb_list (eqb_option (eqb_prod eqb_str N.eqb)) (o_files o) fl &&
      eqb_list cls_ok (map cls (o_pcs o)) cs &&
      eqb_list (eqb_option eqb_str) (map racc (o_pcs o)) rs
  end.
"""


class Unexpected(Exception):
    pass


def c_name(n):
    if n[0] == "dest":
        return "(Dest %d)" % n[1]
    if n[0] == "meta":
        return "(Meta %d %d)" % (n[1], n[2])
    if n[0] == "tmp" and n[1] is not None:
        return "(Tmp %d %d)" % (n[1], n[2])
    raise Unexpected("operation on a name outside the protocol: %r" % (n,))


def c_obs(t):
    k = t[0]
    if k == "isfile":
        return "(OIsFile %s %s)" % (c_name(t[1]), L.B(t[2]))
    if k == "isdir":
        if t[1] is None:
            raise Unexpected("stat of an unexpected path")
        return "(OIsDir %d %s)" % (t[1], L.B(t[2]))
    if k == "mkdirs":
        if t[1] is None:
            raise Unexpected("makedirs of an unexpected path")
        return "(OMkdirs %d %s)" % (t[1], L.B(t[2]))
    if k == "mktemp":
        return "(OMkTemp %s %s)" % (c_name(t[1]), L.B(t[2]))
    if k == "write":
        return "(OWrite %s %d %s)" % (c_name(t[1]), t[2], L.B(t[3]))
    if k == "close":
        return "(OClose %s %s)" % (c_name(t[1]), L.B(t[2]))
    if k == "chmod":
        return "(OChmod %s %d %s)" % (c_name(t[1]), t[2], L.B(t[3]))
    if k == "link":
        return "(OLink %s %s %d)" % (c_name(t[1]), c_name(t[2]), t[3])
    if k == "replace":
        return "(OReplace %s %s %s)" % (c_name(t[1]), c_name(t[2]), L.B(t[3] == 0))
    if k == "unlink":
        return "(OUnlink %s %s)" % (c_name(t[1]), L.B(t[2]))
    if k == "open":
        return "(OOpen %s %s)" % (c_name(t[1]), L.B(t[2]))
    if k == "read":
        return "(ORead %d)" % t[1]
    raise Unexpected("operation outside the protocol: %r" % (t,))


def c_mode(m):
    return "None" if m is None else "(Some %d)" % m


class Pool:
    """byte strings of one batch of cases, each distinct one defined once in the preamble of that batch"""

    def __init__(self, surrogate=False):
        # surrogate: every distinct byte string b of the batch is replaced by `repeat tag (len b)` with a tag
        # unique to b.  The model treats bytes as opaque (it only appends, concatenates and cuts by length), so
        # this keeps lengths and the equal/different pattern of all chunks while the Coq literals stay small;
        # that file contents / read results are prefixes of the chunk sequence they are expressed by is checked
        # on the real bytes (explain) before.
        self.surrogate = surrogate
        self.names = {}
        self.defs = []

    def ref(self, b):
        b = bytes(b)
        if not b:
            return "(@nil N)"
        nm = self.names.get(b)
        if nm is None:
            nm = "d%d" % len(self.names)
            self.names[b] = nm
            if self.surrogate:
                self.defs.append("Definition %s : data := repeat %d %d%%nat." % (nm, 1000 + len(self.names), len(b)))
            else:
                self.defs.append("Definition %s : data := %s." % (nm, L.by(b)))
        return nm

    def chunks(self, chs):
        return L.lst([self.ref(c) for c in chs]) if chs else "(@nil data)"

    def explain(self, x, streams):
        """x as a prefix of the concatenation of one of the known chunk sequences (keeps the literals small;
        the bytes denoted are exactly x either way)"""
        x = bytes(x)
        if not x:
            return "(@nil N)"
        for chs in streams:
            tot = b"".join(chs)
            if len(tot) >= len(x) and tot.startswith(x):
                used, n = [], 0
                for c in chs:
                    if n >= len(x):
                        break
                    if c:
                        used.append(self.ref(c))
                    n += len(c)
                e = "(" + " ++ ".join(used) + ")"
                return e if n == len(x) else "(firstn %d%%nat %s)" % (len(x), e)
        return self.ref(x)

    def preamble(self):
        return "\n".join(self.defs) + "\n"


def c_job(job, p, pool):
    kind = job["kind"]
    if kind == "mirror" and p["consumed"] is not None and all(ok for _, ok in p["writes"]):
        # ok: the consumer returned normally and the rest of the stream could be read; otherwise everything that
        # had been read before the failure was forwarded
        ok = bool(p["consumer_ok"]) and not p["src_failed"]
        n = p["consumed"] if ok else len(p["src_reads"])
        return "(mirror_job %d %s %d%%nat %s %s)" % (job["bid"], pool.chunks(p["src_reads"]), n,
                                                   c_mode(job.get("mode")), L.B(ok))
    k = {"upload": "KUpload", "mirror": "KMirror", "read": "KRead"}.get(kind) or "(KMeta %d)" % job["sfx"]
    if kind == "upload":
        ok = p["pack_returned"] if p["state"] == "done" else True
    else:
        ok = True
    return "{| j_kind := %s; j_bid := %d; j_chunks := %s; j_mode := %s; j_ok := %s |}" % (
        k, job["bid"], pool.chunks([d for d, _ in p["writes"]]), c_mode(job.get("mode")), L.B(ok))


def real_class(job, p):
    if p["state"] == "dead":
        return 6
    if p["state"] != "done":
        return 5 if (job["kind"] == "read" and p["opened_self"]) else 0
    r = p["result"][0]
    return {"ok": 1, "skipped": 2, "fail": 3, "notfound": 4, "read": 5, "mirror": 99, "internal": 3}[r]


def coq_case(sc, rec, pool):
    """(input literal, expected literal) of one executed scenario; raises Unexpected"""
    jobs = sc["jobs"]
    js = L.lst([c_job(j, p, pool) for j, p in zip(jobs, rec["procs"])])
    ls = L.lst(["(LStep %d%%nat %s %d)" % (l[1], L.B(l[2]), l[3]) if l[0] == "step" else "(LKill %d%%nat)" % l[1]
                for l in rec["labels"]]) if rec["labels"] else "(@nil lab)"
    ns = L.lst([c_name(n) for n in rec["names"]])
    # a kill has no operation: the model emits ONone for it
    it = iter(rec["trace"])
    full = []
    for l in rec["labels"]:
        full.append("ONone" if l[0] == "kill" else c_obs(next(it)))
    tr = L.lst(full) if full else "(@nil obs)"
    streams = [[d for d, ok in p["writes"] if ok] for p in rec["procs"]]

    def owner_first(n):
        o = rec["owners"].get(n)
        return streams if o is None else [streams[o]] + streams[:o] + streams[o + 1:]
    fl = L.lst(["(@None (data * N))" if f is None else "(Some (%s, %d))" % (pool.explain(f[0], owner_first(n)), f[1])
                for n, f in zip(rec["names"], rec["files"])])
    cs, rs = [], []
    for j, p in zip(jobs, rec["procs"]):
        c = real_class(j, p)
        cs.append(str(c))
        rs.append("(Some %s)" % pool.explain(p["read_acc"], owner_first(("dest", j["bid"])))
                  if (j["kind"] == "read" and c == 5) else "(@None data)")
    return "(%s, %s, %s)" % (js, ls, ns), "(%s, %s, %s, %s)" % (tr, fl, L.lst(cs), L.lst(rs))


# ------------------------------------------------------------------ scenario generators
B0 = 5 << 140                 # directory 00/50? no: the first two bytes are 0x00 0x50
B1 = B0 + 1                   # same directory, other artifact
B2 = (0xAB12 << 144) | 7      # other directory
MODES = [None, None, 0o644, 0o444, 0o600]


def gen_job(rng, bids):
    r = rng.random()
    b = rng.choice(bids)
    if r < 0.5:
        return {"kind": "upload", "bid": b, "mode": rng.choice(MODES), "content": rng.randrange(1000),
                "nofail": rng.random() < 0.2, "pack_fail": rng.random() < 0.07}
    if r < 0.65:
        j = {"kind": "mirror", "bid": b, "mode": rng.choice(MODES), "nofail": rng.random() < 0.3}
        x = rng.random()
        if x < 0.2:
            j["src_fail_at"] = rng.randrange(3)
        elif x < 0.3:
            j["src_corrupt"] = True
        elif x < 0.38:
            # an artifact whose last bytes start a new read unit of the tar stream reader: the consumer stops early
            j["src_size"] = 10300 + rng.randrange(400)
            j["src_seed"] = rng.randrange(100)
            j["src_tail"] = True
        return j
    if r < 0.85:
        return {"kind": "read", "bid": b}
    return {"kind": "meta", "bid": b, "sfx": rng.randrange(2), "mode": rng.choice(MODES), "content": rng.randrange(1000),
            "nofail": rng.random() < 0.2}


def gen_scenario(rng):
    bids = rng.choice([[B0], [B0], [B0], [B0, B1], [B0, B2], [B0, B1, B2]])
    n = rng.choice([1, 2, 2, 3, 3, 4, 5])
    jobs = [gen_job(rng, bids) for _ in range(n)]
    # one source artifact per build-id: mirrors of the same id must agree on its parameters
    seen = {}
    for j in jobs:
        if j["kind"] == "mirror":
            base = seen.setdefault(j["bid"], j)
            for k in ("src_size", "src_seed", "src_corrupt", "src_tail"):
                if k in base:
                    j[k] = base[k]
                else:
                    j.pop(k, None)
    return {"jobs": jobs,
            "strategy": rng.choice(["random", "random", "random", "barrier", "barrier", "roundrobin", "sequential"]),
            "p_fault": rng.choice([0, 0, 0, 0.03, 0.1]), "p_kill": rng.choice([0, 0, 0, 0.02, 0.08]),
            "seed": rng.randrange(1 << 30)}


def systematic(rng):
    """an injected OSError, and a kill, at every operation of each upload path, followed by a second uploader
    and a reader of the same build-id"""
    out = []
    firsts = [{"kind": "upload", "bid": B0, "mode": 0o644, "content": 1},
              {"kind": "upload", "bid": B0, "mode": None, "content": 1, "nofail": True},
              {"kind": "meta", "bid": B0, "sfx": 0, "mode": 0o644, "content": 1},
              {"kind": "mirror", "bid": B0, "mode": 0o644},
              {"kind": "mirror", "bid": B0, "mode": None, "nofail": True}]
    for first in firsts:
        probe = run_scenario({"jobs": [first], "strategy": "sequential"}, rng)
        n = len(probe["labels"])
        for i in range(n):
            for what in ("fault_at", "kill_at"):
                out.append({"jobs": [dict(first), {"kind": "upload", "bid": B0, "mode": 0o600, "content": 2}, {"kind": "read", "bid": B0}],
                            "strategy": "sequential", what: [[0, i]]})
    # lost race / already exists, in every order of the two publishing operations
    for strat in ("barrier", "sequential", "roundrobin"):
        for k2 in ("upload", "mirror"):
            out.append({"jobs": [{"kind": "upload", "bid": B0, "mode": 0o644, "content": 1},
                                 {"kind": k2, "bid": B0, "mode": None, "content": 2},
                                 {"kind": "read", "bid": B0}], "strategy": strat, "seed": 1})
    return out


def execute(ctx, sc, cases, meta, origin):
    import random
    rng = random.Random(sc.get("seed", 0))
    rec = run_scenario(sc, rng)
    ctx.evaluated()
    jobs = sc["jobs"]
    for p, pr_state in zip(rec["procs"], rec["procs"]):
        pass
    # per-process: did the reader itself open the artifact (for the class of a blocked reader)
    for pid, (j, p) in enumerate(zip(jobs, rec["procs"])):
        p["opened_self"] = False
    it = iter(rec["trace"])
    for l in rec["labels"]:
        if l[0] == "step":
            t = next(it)
            if t[0] == "open" and t[2]:
                rec["procs"][l[1]]["opened_self"] = True
    kinds = "+".join(sorted(j["kind"] for j in jobs))
    ctx.count("jobs:" + kinds)
    ctx.count("strategy:" + sc.get("strategy", "explicit" if sc.get("schedule") else "random"))
    nf = sum(1 for l in rec["labels"] if l[0] == "step" and l[2])
    nk = sum(1 for l in rec["labels"] if l[0] == "kill")
    ctx.count("faults:%s" % ("0" if nf == 0 else "1" if nf == 1 else "2+"))
    ctx.count("kills:%s" % ("0" if nk == 0 else "1+"))
    for t in rec["trace"]:
        if t[0] == "link":
            ctx.count("link:%s" % {0: "linked", 1: "lost-race", 2: "error"}[t[3]])
        if t[0] == "isfile" and t[2]:
            ctx.count("exists-check:already-there")
    for j, p in zip(jobs, rec["procs"]):
        ctx.count("outcome:%s:%s" % (j["kind"], p["state"] if p["state"] != "done" else p["result"][0] if p["result"] else "?"))
        if j["kind"] == "mirror" and p["consumed"] is not None and p["consumed"] < len(p["src_reads"]):
            ctx.count("mirror:consumer-stopped-before-end-of-stream")
    same_bid = len(jobs) > len({j["bid"] for j in jobs})
    interleaved = any(rec["labels"][i][1] != rec["labels"][i + 1][1] for i in range(len(rec["labels"]) - 1))
    if (same_bid and interleaved) or nf or nk:
        ctx.nontrivial(("c09", json.dumps(jobs, sort_keys=True), tuple(rec["labels"])))
    replay_obj = {"jobs": jobs, "schedule": [list(l) for l in rec["labels"]], "origin": origin}
    for sig, what in rec["problems"]:
        ctx.violation(sig, what, replay_obj)
    if len(ctx.cov["samples"]) < 5 and len(jobs) >= 2 and interleaved:
        ctx.sample({"jobs": jobs, "schedule": ["%s%d%s" % (l[0][0], l[1], "!" if l[0] == "step" and l[2] else "") for l in rec["labels"]][:60],
                    "outcomes": [p["result"] or p["state"] for p in rec["procs"]]})
    try:
        cases.append((sc, rec))
        coq_case(sc, rec, Pool())          # operations outside the model are reported here
        meta.append(replay_obj)
    except Unexpected as e:
        cases.pop()
        ctx.tie_broken("operation-outside-the-model", {"what": str(e), "case": replay_obj})
    return rec


def evaluate_on_model(ctx, cases, meta, batch=45, workers=4, real_bytes=45):
    """vm_compute BobV.C09.Model.observe on the schedule of every executed scenario and compare"""
    from concurrent.futures import ThreadPoolExecutor
    batches = [(i, cases[i:i + batch]) for i in range(0, len(cases), batch)]

    def one(arg):
        off, cs = arg
        pool = Pool(surrogate=off >= real_bytes)      # the first `real_bytes` cases carry the real payload bytes
        lits = [coq_case(sc, rec, pool) for sc, rec in cs]
        bad, log = coq.run_cases(ctx, ["BobV.C09.Model"], "(fun i => i)", "chk", lits,
                                 preamble=PREAMBLE + pool.preamble(), tag="c09b%d" % off, shard=len(lits))
        return off, len(lits), bad, log

    with ThreadPoolExecutor(max_workers=workers) as ex:
        for off, n, bad, log in ex.map(one, batches):
            if bad is None:
                ctx.tie_broken("C09 model evaluation failed", log)
                continue
            ctx.validated(n - len(bad))
            ctx.count("model-cases:%s" % ("surrogate-bytes" if off >= real_bytes else "real-bytes"), n)
            for i in bad[:5]:
                ctx.tie_broken("trace/state correspondence", meta[off + i])
            if bad:
                ctx.count("model-mismatch", len(bad))


# ------------------------------------------------------------------ real multi-process stress
def _stress_uploader(root, ws, bid, idx, seed):
    """child process: one real upload; writes are additionally copied to ws/payload.bin; random tiny delays
    widen the race windows"""
    import random
    A = _bob()
    rnd = random.Random(seed)
    real_ntf = A.NamedTemporaryFile
    side = open(os.path.join(ws, "payload.bin"), "wb", buffering=0)

    class P:
        def __init__(self, f):
            self._f = f

        def __getattr__(self, k):
            return getattr(self._f, k)

        @property
        def name(self):
            return self._f.name

        def write(self, d):
            side.write(d)
            if rnd.random() < 0.3:
                time.sleep(rnd.random() * 0.0015)
            return self._f.write(d)

        def close(self):
            side.write(b"")
            with open(os.path.join(ws, "packed"), "wb") as g:      # all writes were issued
                g.write(b"1")
            if rnd.random() < 0.5:
                time.sleep(rnd.random() * 0.002)
            return self._f.close()

    def ntf(*a, **kw):
        return P(real_ntf(*a, **kw))
    A.NamedTemporaryFile = ntf
    saved = {}
    for nm in ("link", "unlink", "chmod"):
        real = getattr(os, nm)
        saved[nm] = real

        def delayed(*a, _real=real, **kw):
            if rnd.random() < 0.6:
                time.sleep(rnd.random() * 0.002)
            return _real(*a, **kw)
        setattr(os, nm, delayed)
    arch = _enable(A.LocalArchive({"backend": "file", "path": root, "fileMode": [None, 0o644, 0o600][idx % 3]}
                                  if idx % 3 else {"backend": "file", "path": root}))
    time.sleep(rnd.random() * 0.004)
    try:
        msg, kind = A.BaseArchive._uploadPackage(arch, bid, A.ARTIFACT_SUFFIX, os.path.join(ws, "audit.json.gz"),
                                                 os.path.join(ws, "content"))
        with open(os.path.join(ws, "result"), "w") as f:
            f.write(str(msg))
    except BaseException as e:
        with open(os.path.join(ws, "result"), "w") as f:
            f.write("EXC " + repr(e))
    finally:
        A.NamedTemporaryFile = real_ntf
        for nm, fn in saved.items():
            setattr(os, nm, fn)
        side.close()


def _stress_reader(root, ws, bid, stopfile, seed):
    """child process: polls the artifact name; every observation is recorded with its digest and validity"""
    import random
    A = _bob()
    rnd = random.Random(seed)
    p = dest_path(root, int.from_bytes(bid, "big"))
    arch = _enable(A.LocalArchive({"backend": "file", "path": root}))
    obs = []
    n = 0
    t_end = time.time() + 20
    while time.time() < t_end:
        stop = os.path.exists(stopfile)
        n += 1
        try:
            with open(p, "rb") as f:
                st = os.fstat(f.fileno())
                parts = []
                while True:
                    d = f.read(rnd.choice([512, 4096, 10240]))
                    if not d:
                        break
                    parts.append(d)
                    if rnd.random() < 0.2:
                        time.sleep(rnd.random() * 0.001)
                raw = b"".join(parts)
            ok = valid_artifact(raw)
            rec = {"sha": hashlib.sha1(raw).hexdigest(), "len": len(raw), "valid": ok, "ino": st.st_ino,
                   "mode": stat.S_IMODE(st.st_mode)}
            if n % 3 == 0:
                # Bob's own reader
                try:
                    ret = A.BaseArchive._downloadPackage(arch, bid, A.ARTIFACT_SUFFIX, os.path.join(ws, "o.audit"),
                                                         os.path.join(ws, "o"), [], "ws")
                    rec["bob"] = bool(ret[0]) and open(os.path.join(ws, "o", "data"), "rb").read(40).decode("latin1")
                except BaseException as e:
                    rec["bob"] = "EXC " + repr(e)[:200]
            if not obs or obs[-1] != rec:
                obs.append(rec)
        except FileNotFoundError:
            pass
        if stop:
            break
        time.sleep(rnd.random() * 0.002)
    with open(os.path.join(ws, "observations.json"), "w") as f:
        json.dump(obs, f)


class WorkerTimeout(Exception):
    pass


class Worker:
    """a forked process that executes uploads / reader rounds on command.  Process creation and the first
    run of a fresh process are slow here (copy-on-write faults), so workers persist, a SIGKILLed uploader is
    replaced by a spare that has already done a warm-up upload into a private directory."""

    def __init__(self, role, warm_dir=None):
        self.role = role
        c_r, c_w = os.pipe()
        d_r, d_w = os.pipe()
        sys.stdout.flush()
        pid = os.fork()
        if pid == 0:
            try:
                os.close(c_w)
                os.close(d_r)
                fin = os.fdopen(c_r, "r")
                for line in fin:
                    cmd = json.loads(line)
                    try:
                        if role == "up":
                            _stress_uploader(cmd["root"], cmd["ws"], bytes.fromhex(cmd["bid"]), cmd["idx"], cmd["seed"])
                        else:
                            _stress_reader(cmd["root"], cmd["ws"], bytes.fromhex(cmd["bid"]), cmd["stop"], cmd["seed"])
                    except BaseException:
                        pass
                    finally:
                        os.write(d_w, b"x")
            finally:
                os._exit(0)
        os.close(c_r)
        os.close(d_w)
        self.pid, self.cmd_w, self.done_r = pid, c_w, d_r
        self.warming = False
        if warm_dir is not None and role == "up":
            ws = os.path.join(warm_dir, "w%d" % pid)
            os.makedirs(os.path.join(ws, "content"))
            with open(os.path.join(ws, "audit.json.gz"), "wb") as f:
                f.write(b"AUDIT")
            with open(os.path.join(ws, "content", "data"), "wb") as f:
                f.write(b"warm-up")
            self.send({"root": os.path.join(ws, "C"), "ws": ws, "bid": bid_bytes(B2).hex(), "idx": 0, "seed": 0})
            self.warming = True

    def send(self, cmd):
        os.write(self.cmd_w, (json.dumps(cmd) + "\n").encode())

    def wait_done(self, timeout):
        import select
        r, _, _ = select.select([self.done_r], [], [], timeout)
        if r:
            return os.read(self.done_r, 1) == b"x"
        return False

    def ready(self, timeout=300):
        if self.warming:
            if not self.wait_done(timeout):
                raise WorkerTimeout("warm-up of a stress worker did not finish in %ds" % timeout)
            self.warming = False
        return True

    def close(self, kill=True):
        for fd in (self.cmd_w, self.done_r):
            try:
                os.close(fd)
            except OSError:
                pass
        if kill:
            try:
                os.kill(self.pid, signal.SIGKILL)
            except ProcessLookupError:
                pass
        try:
            os.waitpid(self.pid, 0)
        except ChildProcessError:
            pass


class StressPool:
    def __init__(self, n_up, n_rd, n_spare=3):
        self.warm_dir = core.scratch_dir("c09w")
        self.ups = [Worker("up", self.warm_dir) for _ in range(n_up)]
        self.rds = [Worker("rd") for _ in range(n_rd)]
        self.spares = [Worker("up", self.warm_dir) for _ in range(n_spare)]
        for w in self.ups:
            w.ready()

    def replace(self, i):
        self.ups[i].close(kill=False)
        sp = self.spares.pop(0)
        sp.ready()
        self.ups[i] = sp
        self.spares.append(Worker("up", self.warm_dir))

    def close(self):
        for w in self.ups + self.rds + self.spares:
            w.close()
        shutil.rmtree(self.warm_dir, ignore_errors=True)


def stress_round(ctx, rng, pool):
    scratch = core.scratch_dir("c09s")
    try:
        root = os.path.join(scratch, "C")
        os.makedirs(root)
        bid = bid_bytes(B0 + rng.randrange(1 << 20))
        stopfile = os.path.join(scratch, "stop")
        ups, rds = [], []
        for i in range(len(pool.ups)):
            ws = os.path.join(scratch, "u%d" % i)
            os.makedirs(os.path.join(ws, "content"))
            with open(os.path.join(ws, "audit.json.gz"), "wb") as f:
                f.write(b"AUDIT")
            with open(os.path.join(ws, "content", "data"), "wb") as f:
                f.write(b"stress-payload-%d;" % i + rng.randbytes(rng.choice([0, 100, 5000, 40000])))
            ups.append(ws)
        for i in range(len(pool.rds)):
            ws = os.path.join(scratch, "r%d" % i)
            os.makedirs(ws)
            rds.append(ws)
        for i, (wk, ws) in enumerate(zip(pool.rds, rds)):
            wk.send({"root": root, "ws": ws, "bid": bid.hex(), "stop": stopfile, "seed": rng.randrange(1 << 30)})
        for i, (wk, ws) in enumerate(zip(pool.ups, ups)):
            wk.send({"root": root, "ws": ws, "bid": bid.hex(), "idx": i, "seed": rng.randrange(1 << 30)})
        # SIGKILL a random subset at random points of their upload
        victims = []
        if rng.random() < 0.4:
            victims = sorted((rng.random() * 0.02, i) for i in rng.sample(range(len(pool.ups)), rng.choice([1, 1, 2])))
        t0 = time.time()
        killed = set()
        for delay, i in victims:
            dt = delay - (time.time() - t0)
            if dt > 0:
                time.sleep(dt)
            wk = pool.ups[i]
            if wk.wait_done(0):
                wk.done_seen = True          # finished before the kill came
                continue
            os.kill(wk.pid, signal.SIGKILL)
            killed.add(i)
        for i, wk in enumerate(pool.ups):
            if i in killed:
                try:
                    pool.replace(i)
                except WorkerTimeout as e:
                    return None, {"skipped": str(e)}
            elif getattr(wk, "done_seen", False):
                wk.done_seen = False
            elif not wk.wait_done(90):
                return None, {"skipped": "uploader worker %d did not finish in 90s" % i}
        with open(stopfile, "w") as f:
            f.write("x")
        for wk in pool.rds:
            if not wk.wait_done(90):
                return None, {"skipped": "reader worker did not finish in 90s"}
        # ---- verdict
        problems = []
        p = dest_path(root, int.from_bytes(bid, "big"))
        payloads = {}
        finished = 0
        for i, ws in enumerate(ups):
            if os.path.exists(os.path.join(ws, "packed")):
                payloads[i] = open(os.path.join(ws, "payload.bin"), "rb").read()
            if os.path.exists(os.path.join(ws, "result")):
                res = open(os.path.join(ws, "result")).read()
                if res == "ok" or "skipped" in res:
                    finished += 1
                elif res.startswith("EXC"):
                    problems.append(("uploader-raised", res[:300]))
        final = open(p, "rb").read() if os.path.exists(p) else None
        ctx.count("stress:final-%s" % ("present" if final is not None else "absent"))
        ctx.count("stress:killed-during-upload", len(killed))
        if final is None and finished:
            problems.append(("artifact-missing-after-successful-upload", "%d uploaders reported ok/skipped but nothing is there" % finished))
        if final is not None:
            owners = [i for i, d in payloads.items() if d == final]
            if len(owners) != 1:
                problems.append(("artifact-incomplete-or-foreign-content",
                                 "final artifact (%d bytes) equals the complete output of %d uploaders" % (len(final), len(owners))))
            if not valid_artifact(final):
                problems.append(("artifact-invalid-gzip-tar", "final artifact is not a valid gzip/tar"))
        fsha = hashlib.sha1(final).hexdigest() if final is not None else None
        nobs = 0
        for ws in rds:
            try:
                obs = json.load(open(os.path.join(ws, "observations.json")))
            except FileNotFoundError:
                return None, {"skipped": "a reader worker left no observations"}
            for o in obs:
                nobs += 1
                if not o["valid"]:
                    problems.append(("reader-saw-incomplete-artifact", "a reader saw %d bytes that are not a valid artifact" % o["len"]))
                if o["sha"] != fsha:
                    problems.append(("artifact-changed-after-publication", "a reader saw sha %s, final is %s" % (o["sha"], fsha)))
                b = o.get("bob")
                if b is not None and not (isinstance(b, str) and b.startswith("stress-payload-")):
                    problems.append(("reader-saw-incomplete-artifact", "Bob's downloader on a present artifact: %r" % (b,)))
            if len({(o["ino"], o["mode"]) for o in obs}) > 1:
                problems.append(("artifact-changed-after-publication", "inode/mode changed between observations"))
        ctx.count("stress:reader-observations", nobs)
        leftovers = [f for f in glob.glob(os.path.join(root, "*", "*", "*")) if f != p]
        ctx.count("stress:leftover-temporaries", len(leftovers))
        if len(leftovers) > len(killed):
            problems.append(("temporary-files-left-by-unkilled-uploaders", "%d leftovers, %d killed" % (len(leftovers), len(killed))))
        return problems, {"n_up": len(pool.ups), "n_rd": len(pool.rds), "killed": len(killed),
                          "final": None if final is None else len(final)}
    finally:
        shutil.rmtree(scratch, ignore_errors=True)


# ------------------------------------------------------------------ main
def load_corpus():
    out = []
    for p in sorted(glob.glob(os.path.join(core.VERIF, "corpus", "C09", "*.json"))):
        with open(p) as f:
            d = json.load(f)
        d["_file"] = os.path.basename(p)
        out.append(d)
    return out


def run(ctx):
    ctx.rule = ("jobs (package uploader / cache mirror / metadata uploader / reader; 1-5 per scenario, mostly on one "
                "build-id) x schedule (random, round-robin, sequential, 'everybody waits before its link') x injected "
                "OSError / kill at any operation; plus an OSError and a kill at EVERY operation of each upload path; "
                "non-trivial = at least two processes of one build-id actually interleaved, or a fault/kill; distinct "
                "by (jobs, executed label sequence)")
    ctx.assumptions += [
        "proved for the file backend only; HTTP/Azure/shell backends are not modelled (their atomicity is the server's)",
        "kernel semantics assumed: link() fails with EEXIST instead of replacing, O_EXCL creates a new inode, "
        "names are switched atomically, data written through a descriptor belongs to the inode not the name",
        "crash = kill of a process / I/O error at any operation; power loss is out of scope (the code does not fsync)",
        "POSIX branch of LocalArchiveUploader.__exit__ only (isWindows() false); directoryMode/umask handling not modelled",
        "temporary names of tempfile never coincide with artifact names (checked on every observed name)",
        "the payload (gzip/tar bytes produced by _pack) is opaque here: any sequence of write() chunks (see C08)",
        "theorems are about the hand-written model; its agreement with pym/bob/archive.py is exercised, not proved, by "
        "replaying every executed schedule on the model (operation trace, final files, outcomes)",
    ]
    ctx.trusted_base += ["C09 harness: os/tempfile/open wrappers that turn operations of the real upload path into scheduling points"]
    import random
    rng = ctx.rng
    try:
        if ctx.replay:
            return replay(ctx)
        # (3) real processes first (fork before any thread exists in this process)
        rounds = ctx.n(100, 2200)
        budget = ctx.n(45, 1500)              # seconds; fork() can be very slow on a loaded machine
        t0 = time.time()
        done = 0
        pool = StressPool(6 if ctx.tier == "quick" else 10, 2)
        try:
            skipped = 0
            for r in range(rounds):
                problems, info = stress_round(ctx, rng, pool)
                if problems is None:
                    # the harness' own worker processes did not answer (overloaded machine): not a verdict on the code
                    skipped += 1
                    ctx.count("stress:round-skipped-worker-timeout")
                    pool.close()
                    if skipped > 5:
                        ctx.note("stress stopped: workers timed out %d times (%s)" % (skipped, info.get("skipped")))
                        pool = StressPool(0, 0, 0)
                        break
                    pool = StressPool(len(pool.ups), len(pool.rds))
                    continue
                ctx.evaluated()
                done += 1
                ctx.nontrivial(("stress", r, ctx.seed))
                for sig, what in problems:
                    ctx.violation(sig, "multi-process stress: " + what, {"stress": info, "round": r, "seed": ctx.seed})
                if time.time() - t0 > budget and done >= 25:
                    break
        finally:
            pool.close()
        ctx.note("multi-process stress: %d of %d rounds in %.1fs (time budget %ds)" % (done, rounds, time.time() - t0, budget))
        if done == 0:
            ctx.tie_broken("multi-process stress did not run", "no round completed")
        # (1)+(2) deterministic interleavings
        t1 = time.time()
        cases, meta = [], []
        for c in load_corpus():
            execute(ctx, c, cases, meta, "corpus:" + c["_file"])
            ctx.count("corpus")
        for sc in systematic(random.Random(rng.randrange(1 << 30))):
            execute(ctx, sc, cases, meta, "systematic")
        n = ctx.n(240, 5000)
        for i in range(n):
            execute(ctx, gen_scenario(rng), cases, meta, "random")
        uninstall_hooks()
        t2 = time.time()
        ctx.note("deterministic interleavings: %d scenarios in %.1fs" % (len(cases), t2 - t1))
        evaluate_on_model(ctx, cases, meta)
        ctx.note("model evaluation (vm_compute): %.1fs" % (time.time() - t2))
    finally:
        uninstall_hooks()


def replay(ctx):
    d = json.load(open(ctx.replay))
    c = d.get("case", d)
    for b in d.get("broken", []):
        det = b.get("detail")
        if isinstance(det, dict) and "jobs" in det:
            c = det
            break
        if isinstance(det, dict) and isinstance(det.get("case"), dict):
            c = det["case"]
            break
    if "jobs" not in c and "stress" not in c:
        print("nothing to replay in", ctx.replay)
        return
    if "stress" in c:
        import random
        rng = random.Random(c.get("seed", 1))
        pool = StressPool(c["stress"].get("n_up", 6), c["stress"].get("n_rd", 2))
        try:
            for r in range(200):
                problems, info = stress_round(ctx, rng, pool)
                if problems is None:
                    print("round skipped:", info)
                    break
                ctx.evaluated()
                for sig, what in problems:
                    ctx.violation(sig, "multi-process stress: " + what, c)
                if problems:
                    break
        finally:
            pool.close()
        return
    cases, meta = [], []
    rec = execute(ctx, {"jobs": c["jobs"], "schedule": c["schedule"]}, cases, meta, "replay")
    uninstall_hooks()
    for l, t in zip([l for l in rec["labels"] if l[0] == "step"], rec["trace"]):
        print(l, t)
    print("files:", [(n, None if f is None else (len(f[0]), oct(f[1]))) for n, f in zip(rec["names"], rec["files"])])
    print("outcomes:", [(p["state"], p["result"]) for p in rec["procs"]])
    print("oracle:", rec["problems"])
    evaluate_on_model(ctx, cases, meta)

