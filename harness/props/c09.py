"""C09 — archive uploads are atomic and never overwrite (file backend).

Three parts, all on the implementation imported from core.REPO/pym as it is now:

 (1) deterministic interleavings: N "processes" (threads running the real
     BaseArchive._uploadPackage / _uploadLocalFile / _downloadPackage(+caches))
     on one archive directory.  Every file-system operation of the upload path
     (os.stat, os.makedirs, NamedTemporaryFile, write, close, os.chmod, os.link,
     os.replace, os.rename, os.unlink, open, read) is a scheduling point: a
     process only performs its next operation when the scheduler picks it, so a
     generated schedule (with injected OSErrors and kills) is executed exactly.
     The same schedule is evaluated on the Coq model (BobV.C09.Model.observe,
     vm_compute) and operation trace, final files and process outcomes are
     compared.
 (2) the property oracle, independent of the model, on the same runs: after
     every step each artifact name is absent or holds the complete output of one
     finished packer (mirror: the bytes of the source artifact), valid gzip/tar,
     and never changes inode, bytes or mode once present.
 (3) real multi-process stress: forked uploaders with different payloads plus
     readers on one build-id, SIGKILL at random points.
"""
import errno, gzip, hashlib, io, json, os, shutil, signal, stat, sys, tarfile, threading, time, glob
from vlib import coq, core, coqlit as L

PROPERTY_FILES = ["C09/Properties.v"]

SFX = {0: ".buildid", 1: ".fprnt"}


class Killed(BaseException):
    """raised inside a process thread at teardown; never seen by the implementation as an error"""


# ------------------------------------------------------------------ implementation access
def _bob():
    import bob.archive as A
    return A


def bid_bytes(b):
    return b.to_bytes(20, "big")


def dest_path(root, b, suffix=".tgz"):
    h = bid_bytes(b).hex()
    return os.path.join(root, h[0:2], h[2:4], h[4:] + "-1" + suffix)


# ------------------------------------------------------------------ the hooked world
_tls_world = None          # the World whose hooks are active (one at a time)
_real = {}


def _cur():
    w = _tls_world
    if w is None:
        return None
    return w.by_thread.get(threading.get_ident())


class Proc:
    def __init__(self, world, pid, job):
        self.world, self.pid, self.job = world, pid, job
        self.go = threading.Semaphore(0)
        self.arrived = threading.Semaphore(0)
        self.state = "new"          # new | blocked | done | dead
        self.next_op = None
        self.fault = False
        self.kill = False
        self.suppress = 0
        self.writes = []            # (bytes, ok) write attempts on the temporary file
        self.tmpname = None
        self.pack_returned = False  # _pack (or the metadata write) returned normally
        self.src_reads = []         # mirror: non-empty results of reads of the source stream
        self.consumed = None        # mirror: number of source reads when the consumer returned / raised
        self.consumer_ok = None
        self.read_acc = b""         # reader: bytes read from the archive under test
        self.result = None          # ("ok"|"skipped"|"fail"|"notfound"|"read", detail)
        self.linked = False
        self.thread = None

    # called in the process thread right before an operation
    def point(self, op):
        if self.kill:
            raise Killed()
        self.next_op = op
        self.state = "blocked"
        self.arrived.release()
        self.go.acquire()
        if self.kill:
            raise Killed()
        self.state = "running"
        return self.fault


class World:
    """one archive directory under test + a static source archive for mirrors"""

    def __init__(self, scratch, jobs):
        self.scratch = scratch
        self.root = os.path.join(scratch, "C")
        self.src_root = os.path.join(scratch, "A")
        self.jobs = jobs
        self.procs = []
        self.by_thread = {}
        self.trace = []             # observed operations (python tuples)
        self.tmp_ids = {}           # temporary path -> (dir, k)
        self.next_tmp = 0
        self.torn_down = False

    def inside(self, path):
        try:
            p = os.fspath(path)
        except TypeError:
            return False
        if isinstance(p, bytes):
            p = os.fsdecode(p)
        return p == self.root or p.startswith(self.root + os.sep)

    def inside_src(self, path):
        try:
            p = os.fspath(path)
        except TypeError:
            return False
        if isinstance(p, bytes):
            p = os.fsdecode(p)
        return p.startswith(self.src_root + os.sep)

    # path -> model name (python tuple)
    def name_of(self, path):
        path = os.fspath(path)
        if path in self.tmp_ids:
            d, k = self.tmp_ids[path]
            return ("tmp", d, k)
        rel = os.path.relpath(path, self.root)
        parts = rel.split(os.sep)
        if len(parts) == 3 and len(parts[0]) == 2 and len(parts[1]) == 2:
            leaf = parts[2]
            for sfx, kind in ((".tgz", None), (".buildid", 0), (".fprnt", 1)):
                if leaf.endswith("-1" + sfx) and len(leaf) == 36 + 2 + len(sfx):
                    try:
                        b = int(parts[0] + parts[1] + leaf[:36], 16)
                    except ValueError:
                        break
                    return ("dest", b) if kind is None else ("meta", b, kind)
        return ("other", rel)

    def dir_of(self, path):
        rel = os.path.relpath(os.fspath(path), self.root)
        parts = rel.split(os.sep)
        if len(parts) == 2 and len(parts[0]) == 2 and len(parts[1]) == 2:
            try:
                return int(parts[0] + parts[1], 16)
            except ValueError:
                pass
        return None


def _wrap_simple(fname, handler):
    real = _real[fname]

    def hooked(*a, **kw):
        pr = _cur()
        if pr is None or pr.suppress:
            return real(*a, **kw)
        return handler(pr, real, *a, **kw)
    hooked.__name__ = "bobv_" + fname
    return hooked


def _io_error():
    return OSError(errno.EIO, "injected I/O error")


def h_stat(pr, real, path, *a, **kw):
    w = pr.world
    if not w.inside(path):
        return real(path, *a, **kw)
    fault = pr.point(("stat", path))
    d = w.dir_of(path)
    try:
        if fault:
            raise _io_error()
        r = real(path, *a, **kw)
    except OSError:
        w.trace.append(("isdir", d, False) if d is not None else ("isfile", w.name_of(path), False))
        raise
    if d is not None:
        w.trace.append(("isdir", d, stat.S_ISDIR(r.st_mode)))
    else:
        w.trace.append(("isfile", w.name_of(path), stat.S_ISREG(r.st_mode)))
    return r


def h_makedirs(pr, real, path, *a, **kw):
    w = pr.world
    if not w.inside(path):
        return real(path, *a, **kw)
    fault = pr.point(("makedirs", path))
    d = w.dir_of(path)
    pr.suppress += 1
    try:
        if fault:
            raise _io_error()
        r = real(path, *a, **kw)
    except OSError:
        w.trace.append(("mkdirs", d, False))
        raise
    finally:
        pr.suppress -= 1
    w.trace.append(("mkdirs", d, True))
    return r


def h_mkdir(pr, real, path, *a, **kw):
    w = pr.world
    if not w.inside(path):
        return real(path, *a, **kw)
    pr.point(("mkdir", path))
    w.trace.append(("other-op", "mkdir"))
    return real(path, *a, **kw)


def _path_op(kind):
    def h(pr, real, path, *a, **kw):
        w = pr.world
        if not w.inside(path):
            return real(path, *a, **kw)
        fault = pr.point((kind, path))
        n = w.name_of(path)
        try:
            if fault:
                raise _io_error()
            r = real(path, *a, **kw)
        except OSError:
            w.trace.append((kind, n, a[0] if kind == "chmod" and a else 0, False) if kind == "chmod" else (kind, n, False))
            raise
        w.trace.append((kind, n, a[0] if a else kw.get("mode", 0), True) if kind == "chmod" else (kind, n, True))
        return r
    return h


def _two_path_op(kind):
    def h(pr, real, src, dst, *a, **kw):
        w = pr.world
        if not (w.inside(src) or w.inside(dst)):
            return real(src, dst, *a, **kw)
        fault = pr.point((kind, src, dst))
        s, d = w.name_of(src), w.name_of(dst)
        try:
            if fault:
                raise OSError(errno.EPERM, "injected error")
            r = real(src, dst, *a, **kw)
        except FileExistsError:
            w.trace.append((kind, s, d, 1))
            raise
        except OSError:
            w.trace.append((kind, s, d, 2))
            raise
        w.trace.append((kind, s, d, 0))
        if kind == "link":
            pr.linked = True
        return r
    return h


class WriteProxy:
    """the object handed out instead of NamedTemporaryFile's: same file, every write/close is a scheduling point"""

    def __init__(self, pr, f):
        object.__setattr__(self, "_pr", pr)
        object.__setattr__(self, "_f", f)
        object.__setattr__(self, "_closed_once", False)

    def __getattr__(self, k):
        return getattr(self._f, k)

    @property
    def name(self):
        return self._f.name

    def write(self, data):
        pr = self._pr
        data = bytes(data)
        fault = pr.point(("write", self._f.name))
        n = pr.world.name_of(self._f.name)
        if fault:
            pr.writes.append((data, False))
            pr.world.trace.append(("write", n, len(data), False))
            raise OSError(errno.ENOSPC, "injected: no space left on device")
        r = self._f.write(data)
        self._f.flush()     # model granularity: a write() is visible at once (buffering only coarsens this)
        pr.writes.append((data, True))
        pr.world.trace.append(("write", n, len(data), True))
        return r

    def close(self):
        pr = self._pr
        if self._closed_once:
            return self._f.close()
        object.__setattr__(self, "_closed_once", True)
        fault = pr.point(("close", self._f.name))
        n = pr.world.name_of(self._f.name)
        if fault:
            pr.world.trace.append(("close", n, False))
            raise _io_error()
        r = self._f.close()
        pr.world.trace.append(("close", n, True))
        return r

    def __enter__(self):
        return self

    def __exit__(self, *a):
        self.close()
        return False


class ReadProxy:
    """open(<artifact in the archive under test>, 'rb'): reads are scheduling points"""

    def __init__(self, pr, f):
        self._pr, self._f = pr, f

    def __getattr__(self, k):
        return getattr(self._f, k)

    def read(self, size=-1):
        pr = self._pr
        fault = pr.point(("read", size))
        if fault:
            pr.world.trace.append(("read", 0))
            raise _io_error()
        r = self._f.read(size)
        pr.read_acc += r
        pr.world.trace.append(("read", len(r)))
        return r

    def close(self):
        return self._f.close()

    def __enter__(self):
        return self

    def __exit__(self, *a):
        self._f.close()
        return False


class SrcProxy:
    """open(<artifact in the static source archive>): not part of the archive under test; records the stream"""

    def __init__(self, pr, f):
        self._pr, self._f = pr, f

    def __getattr__(self, k):
        return getattr(self._f, k)

    def read(self, size=-1):
        pr = self._pr
        fail_at = pr.job.get("src_fail_at")
        if fail_at is not None and len(pr.src_reads) >= fail_at:
            raise _io_error()
        r = self._f.read(size)
        if r:
            pr.src_reads.append(r)
        return r

    def close(self):
        return self._f.close()

    def __enter__(self):
        return self

    def __exit__(self, *a):
        self._f.close()
        return False


def h_open(file, mode="r", *a, **kw):
    """bob.archive.open"""
    pr = _cur()
    if pr is None or pr.suppress:
        return _real["open"](file, mode, *a, **kw)
    w = pr.world
    if isinstance(file, (str, bytes, os.PathLike)) and w.inside_src(file):
        return SrcProxy(pr, _real["open"](file, mode, *a, **kw))
    if not (isinstance(file, (str, bytes, os.PathLike)) and w.inside(file)):
        return _real["open"](file, mode, *a, **kw)
    n = w.name_of(file)
    if "r" in mode and "+" not in mode:
        fault = pr.point(("open", file))
        try:
            if fault:
                raise _io_error()
            f = _real["open"](file, mode, *a, **kw)
        except OSError:
            w.trace.append(("open", n, False))
            raise
        w.trace.append(("open", n, True))
        return ReadProxy(pr, f)
    # any other way of opening a name of the archive under test for writing is not part of the protocol
    pr.point(("open-w", file))
    w.trace.append(("other-op", "open:" + mode + ":" + n[0]))
    return _real["open"](file, mode, *a, **kw)


def h_named_tmp(*a, **kw):
    pr = _cur()
    if pr is None or pr.suppress:
        return _real["NamedTemporaryFile"](*a, **kw)
    w = pr.world
    d = kw.get("dir")
    if d is None or not w.inside(d):
        return _real["NamedTemporaryFile"](*a, **kw)
    fault = pr.point(("mktemp", d))
    dn = w.dir_of(d)
    k = w.next_tmp
    w.next_tmp += 1
    pr.suppress += 1
    try:
        if fault:
            raise _io_error()
        f = _real["NamedTemporaryFile"](*a, **kw)
    except OSError:
        w.trace.append(("mktemp", ("tmp", dn, k), False))
        raise
    finally:
        pr.suppress -= 1
    w.tmp_ids[f.name] = (dn, k)
    pr.tmpname = f.name
    w.trace.append(("mktemp", ("tmp", dn, k), True))
    return WriteProxy(pr, f)


_PATCHED = False
_install_lock = threading.Lock()


def install_hooks():
    """global patches; inert for every thread that is not a registered process thread"""
    global _PATCHED
    A = _bob()
    if _PATCHED:
        return
    import builtins, tempfile
    for nm in ("stat", "makedirs", "mkdir", "chmod", "link", "unlink", "remove", "replace", "rename"):
        _real[nm] = getattr(os, nm)
    _real["open"] = builtins.open
    _real["NamedTemporaryFile"] = A.NamedTemporaryFile
    _real["signal"] = signal.signal
    os.stat = _wrap_simple("stat", h_stat)
    os.makedirs = _wrap_simple("makedirs", h_makedirs)
    os.mkdir = _wrap_simple("mkdir", h_mkdir)
    os.chmod = _wrap_simple("chmod", _path_op("chmod"))
    os.unlink = _wrap_simple("unlink", _path_op("unlink"))
    os.remove = _wrap_simple("remove", _path_op("unlink"))
    os.link = _wrap_simple("link", _two_path_op("link"))
    os.replace = _wrap_simple("replace", _two_path_op("replace"))
    os.rename = _wrap_simple("rename", _two_path_op("rename"))
    A.open = h_open
    A.NamedTemporaryFile = h_named_tmp

    def h_signal(*a, **kw):       # signal.signal only works in the main thread (the unit tests patch it out too)
        if _cur() is not None:
            return None
        return _real["signal"](*a, **kw)
    signal.signal = h_signal
    _PATCHED = True


def uninstall_hooks():
    global _PATCHED
    if not _PATCHED:
        return
    A = _bob()
    for nm in ("stat", "makedirs", "mkdir", "chmod", "link", "unlink", "remove", "replace", "rename"):
        setattr(os, nm, _real[nm])
    try:
        del A.open
    except AttributeError:
        pass
    A.NamedTemporaryFile = _real["NamedTemporaryFile"]
    signal.signal = _real["signal"]
    _PATCHED = False


# ------------------------------------------------------------------ jobs (run in process threads)
def _spec(root, job, cache=False):
    flags = ["upload", "download"]
    if cache:
        flags.append("cache")
    if job.get("nofail"):
        flags.append("nofail")
    sp = {"backend": "file", "path": root, "flags": flags}
    if job.get("mode") is not None:
        sp["fileMode"] = job["mode"]
    return sp


def _enable(arch):
    arch.wantDownloadLocal(True)
    arch.wantUploadLocal(True)
    return arch


def marker_of(job, pid):
    return ("payload-of-%d-%d" % (pid, job.get("content", 0))).encode()


def make_workspace(w, pid, job, rng_bytes=None):
    ws = os.path.join(w.scratch, "ws%d" % pid)
    os.makedirs(os.path.join(ws, "content"))
    if not job.get("pack_fail"):
        with open(os.path.join(ws, "audit.json.gz"), "wb") as f:
            f.write(b"AUDIT")
    with open(os.path.join(ws, "content", "data"), "wb") as f:
        f.write(marker_of(job, pid))
        if rng_bytes:
            f.write(rng_bytes)
    return ws


def job_main(pr):
    A = _bob()
    from bob.errors import BuildError
    from bob.tty import SKIPPED, EXECUTED, ERROR
    w, j = pr.world, pr.job
    ws = os.path.join(w.scratch, "ws%d" % pr.pid)
    b = bid_bytes(j["bid"])
    try:
        try:
            if j["kind"] == "upload":
                arch = _enable(A.LocalArchive(_spec(w.root, j)))
                orig = arch._pack

                def pack(*a, **kw):
                    r = orig(*a, **kw)
                    pr.pack_returned = True
                    return r
                arch._pack = pack
                msg, kind = A.BaseArchive._uploadPackage(arch, b, A.ARTIFACT_SUFFIX, os.path.join(ws, "audit.json.gz"),
                                                         os.path.join(ws, "content"))
                pr.result = ("skipped" if kind is SKIPPED else "ok" if kind is EXECUTED else "fail", str(msg))
            elif j["kind"] == "meta":
                arch = _enable(A.LocalArchive(_spec(w.root, j)))
                sfx = A.BUILDID_SUFFIX if j["sfx"] == 0 else A.FINGERPRINT_SUFFIX
                msg, kind = A.BaseArchive._uploadLocalFile(arch, b, sfx, marker_of(j, pr.pid))
                pr.result = ("ok" if kind is EXECUTED else "fail", str(msg))
            elif j["kind"] == "mirror":
                src = _enable(A.LocalArchive(_spec(w.src_root, {})))
                cache = _enable(A.LocalArchive(_spec(w.root, j, cache=True)))
                orig = src._extract

                def extract(fo, audit, content):
                    try:
                        r = orig(fo, audit, content)
                        pr.consumer_ok = True
                        return r
                    except BaseException:
                        pr.consumer_ok = False
                        raise
                    finally:
                        pr.consumed = len(pr.src_reads)
                src._extract = extract
                ret = A.BaseArchive._downloadPackage(src, b, A.ARTIFACT_SUFFIX, os.path.join(ws, "out.audit"),
                                                     os.path.join(ws, "out"), [cache], "ws")
                pr.result = ("mirror", bool(ret[0]))
            elif j["kind"] == "read":
                arch = _enable(A.LocalArchive(_spec(w.root, j)))
                ret = A.BaseArchive._downloadPackage(arch, b, A.ARTIFACT_SUFFIX, os.path.join(ws, "out.audit"),
                                                     os.path.join(ws, "out"), [], "ws")
                if ret[0]:
                    with _real["open"](os.path.join(ws, "out", "data"), "rb") as f:
                        pr.result = ("read", f.read()[:64].decode("latin1"))
                else:
                    pr.result = ("notfound" if "not found" in str(ret[1]) else "fail", str(ret[1]))
            else:
                raise AssertionError(j["kind"])
        except BuildError as e:
            pr.result = ("mirror", False) if j["kind"] == "mirror" else ("fail", str(e)[:200])
        pr.state = "done"
    except Killed:
        pr.state = "dead"
    except BaseException as e:           # anything else is an internal error of the implementation (or of the harness)
        import traceback
        pr.result = ("internal", "%s: %s" % (type(e).__name__, traceback.format_exc()[-1500:]))
        pr.state = "done"
    finally:
        pr.arrived.release()


# ------------------------------------------------------------------ scheduler
def prepare_world(scratch, jobs, extra=None):
    """directories, workspaces and the static source artifacts (main thread, hooks inert)"""
    A = _bob()
    w = World(scratch, jobs)
    os.makedirs(w.root)
    os.makedirs(w.src_root)
    w.src_bytes = {}
    for pid, j in enumerate(jobs):
        big = None
        if j["kind"] == "mirror":
            # source artifact, produced by the real uploader
            src = _enable(A.LocalArchive(_spec(w.src_root, {})))
            sp = dest_path(w.src_root, j["bid"])
            if not os.path.exists(sp):
                import random as _r
                size = j.get("src_size", 0)
                rb = _r.Random(j.get("src_seed", 1)).randbytes(size) if size else None
                sws = os.path.join(scratch, "srcws%d" % pid)
                os.makedirs(os.path.join(sws, "content"))
                with open(os.path.join(sws, "audit.json.gz"), "wb") as f:
                    f.write(b"AUDIT")
                with open(os.path.join(sws, "content", "data"), "wb") as f:
                    f.write(b"source-of-%d" % (j["bid"] % 1000))
                    if rb:
                        f.write(rb)
                A.BaseArchive._uploadPackage(src, bid_bytes(j["bid"]), A.ARTIFACT_SUFFIX,
                                             os.path.join(sws, "audit.json.gz"), os.path.join(sws, "content"))
                if j.get("src_corrupt"):
                    raw = open(sp, "rb").read()
                    os.chmod(sp, 0o644)
                    with open(sp, "wb") as f:
                        f.write(raw[:len(raw) // 2] + b"\xff" * 40 + raw[len(raw) // 2 + 40:])
            w.src_bytes[j["bid"]] = open(sp, "rb").read()
        make_workspace(w, pid, j)
        w.procs.append(Proc(w, pid, j))
    return w


def start_world(w):
    global _tls_world
    _tls_world = w
    for pr in w.procs:
        t = threading.Thread(target=job_main, args=(pr,), daemon=True)
        pr.thread = t
        t.start()
        w.by_thread[t.ident] = pr      # before the thread can reach a hook? it may already be running:
        # a thread that reached a hook before registration just passed through (it only touches its workspace
        # before the first archive operation); to be exact we register inside the thread too (see below)
        pr.arrived.acquire()


def teardown_world(w):
    global _tls_world
    for pr in w.procs:
        if pr.state in ("blocked", "dead", "running"):
            pr.kill = True
            pr.go.release()
    for pr in w.procs:
        if pr.thread is not None:
            pr.thread.join(timeout=10)
    _tls_world = None
    w.torn_down = True


def live(w):
    return [pr for pr in w.procs if pr.state == "blocked"]


def label_for(w, pr, fault):
    op = pr.next_op
    k = 0
    if op[0] == "mktemp":
        k = w.next_tmp
    elif op[0] == "read":
        k = op[1] if isinstance(op[1], int) and op[1] > 0 else 0
    return ("step", pr.pid, bool(fault), k)


def do_step(w, pr, fault):
    lab = label_for(w, pr, fault)
    pr.fault = bool(fault)
    pr.go.release()
    pr.arrived.acquire()
    return lab


# ------------------------------------------------------------------ property oracle (independent of the model)
class Oracle:
    def __init__(self, w):
        self.w = w
        self.seen = {}          # bid -> (ino, mode, sha1, bytes)
        self.problems = []      # (signature, what)
        self.bids = sorted({j["bid"] for j in w.jobs})

    def complete_payloads(self, b):
        out = []
        for pr in self.w.procs:
            j = pr.job
            if j["bid"] != b:
                continue
            if j["kind"] == "upload" and pr.pack_returned and all(ok for _, ok in pr.writes):
                out.append(b"".join(d for d, _ in pr.writes))
            if j["kind"] == "mirror":
                out.append(self.w.src_bytes[b])
        return out

    def check(self, when):
        for b in self.bids:
            p = dest_path(self.w.root, b)
            try:
                st = os.lstat(p)
            except FileNotFoundError:
                st = None
            if st is None:
                if b in self.seen:
                    self.problems.append(("artifact-changed-after-publication", "artifact %x vanished at %s" % (b, when)))
                    del self.seen[b]
                continue
            if not stat.S_ISREG(st.st_mode):
                self.problems.append(("artifact-name-not-a-regular-file", "at %s" % when))
                continue
            with _real.get("open", open)(p, "rb") as f:
                raw = f.read()
            cur = (st.st_ino, stat.S_IMODE(st.st_mode), hashlib.sha1(raw).hexdigest())
            if b in self.seen:
                if self.seen[b][:3] != cur:
                    self.problems.append(("artifact-changed-after-publication",
                                          "artifact %x changed (ino, mode, sha1) %r -> %r at %s" % (b, self.seen[b][:3], cur, when)))
                    self.seen[b] = cur + (raw,)
                continue
            self.seen[b] = cur + (raw,)
            # first appearance: complete and valid
            comp = self.complete_payloads(b)
            if raw not in comp:
                srcs = [s for s in comp if s.startswith(raw)]
                mirrors = [pr for pr in self.w.procs if pr.job["kind"] == "mirror" and pr.job["bid"] == b]
                if mirrors and raw != self.w.src_bytes[b] and self.w.src_bytes[b].startswith(raw):
                    self.problems.append(("mirror-commits-truncated-copy:tail-unread-by-tar-reader",
                                          "cache copy of %x has %d bytes, the source artifact %d" % (b, len(raw), len(self.w.src_bytes[b]))))
                else:
                    self.problems.append(("artifact-incomplete-or-foreign-content",
                                          "artifact %x (%d bytes) at %s is not the complete output of any finished uploader" % (b, len(raw), when)))
            elif not valid_artifact(raw):
                # (a corrupted mirror source is copied faithfully only if the consumer accepted it)
                self.problems.append(("artifact-invalid-gzip-tar", "artifact %x is not a valid gzip/tar stream" % b))
            if not any(pr.linked for pr in self.w.procs if pr.job["bid"] == b and pr.job["kind"] in ("upload", "mirror")):
                self.problems.append(("artifact-present-but-no-upload-linked-it",
                                      "artifact %x appeared at %s without a successful link()" % (b, when)))


def valid_artifact(raw):
    try:
        data = gzip.decompress(raw)
        with tarfile.open(fileobj=io.BytesIO(data), mode="r:") as t:
            names = t.getnames()
        return "content" in names or any(n.startswith("content/") for n in names)
    except Exception:
        return False


# ------------------------------------------------------------------ running one scenario
def run_scenario(sc, rng=None):
    """sc = {"jobs": [...], "strategy": ..., "p_fault": x, "p_kill": y, "schedule": optional explicit list}
    returns a record with trace, labels, final files, outcomes and oracle problems"""
    scratch = core.scratch_dir("c09")
    w = None
    try:
        w = prepare_world(scratch, sc["jobs"])
        orc = Oracle(w)
        install_hooks()
        start_world(w)
        labels = []
        explicit = sc.get("schedule")
        strategy = sc.get("strategy", "random")
        pf, pk = sc.get("p_fault", 0.0), sc.get("p_kill", 0.0)
        fault_at = {tuple(x) for x in sc.get("fault_at", [])}     # (pid, index of that process' step)
        kill_at = {tuple(x) for x in sc.get("kill_at", [])}
        nsteps = {pr.pid: 0 for pr in w.procs}
        rr = 0
        idx = 0
        while True:
            lv = live(w)
            if explicit is not None:
                if idx >= len(explicit):
                    break
                e = explicit[idx]
                idx += 1
                pr = w.procs[e[1]]
                if pr.state != "blocked":
                    continue
                if e[0] == "kill":
                    pr.state = "dead"
                    labels.append(("kill", pr.pid))
                else:
                    labels.append(do_step(w, pr, e[2]))
                orc.check("step %d" % len(labels))
                continue
            if not lv or len(labels) > 4000:
                break
            if strategy == "sequential":
                pr = lv[0]
            elif strategy == "roundrobin":
                pr = lv[rr % len(lv)]
                rr += 1
            elif strategy == "barrier":
                # hold every process right before its publishing operation as long as another one can still move
                movable = [p for p in lv if p.next_op[0] not in ("link", "replace", "rename")]
                pr = rng.choice(movable) if movable else rng.choice(lv)
            else:
                pr = rng.choice(lv)
            key = (pr.pid, nsteps[pr.pid])
            if key in kill_at or (pk and rng.random() < pk):
                pr.state = "dead"
                labels.append(("kill", pr.pid))
            else:
                fault = key in fault_at or (pf and rng.random() < pf)
                nsteps[pr.pid] += 1
                labels.append(do_step(w, pr, fault))
            orc.check("step %d" % len(labels))
        # final snapshot
        names, files = [], []
        for b in orc.bids:
            names.append(("dest", b))
            for s_ in (0, 1):
                names.append(("meta", b, s_))
        for path, (d, k) in sorted(w.tmp_ids.items(), key=lambda x: x[1][1]):
            names.append(("tmp", d, k))
        for n in names:
            if n[0] == "dest":
                p = dest_path(w.root, n[1])
            elif n[0] == "meta":
                p = dest_path(w.root, n[1], SFX[n[2]])
            else:
                p = [q for q, v in w.tmp_ids.items() if v == (n[1], n[2])][0]
            try:
                st = os.lstat(p)
                with open(p, "rb") as f:
                    files.append((f.read(), stat.S_IMODE(st.st_mode)))
            except FileNotFoundError:
                files.append(None)
        rec = {"labels": labels, "trace": list(w.trace), "names": names, "files": files,
               "procs": [{"state": pr.state, "result": pr.result, "writes": list(pr.writes), "linked": pr.linked,
                          "pack_returned": pr.pack_returned, "src_reads": list(pr.src_reads), "consumed": pr.consumed,
                          "consumer_ok": pr.consumer_ok, "read_acc": pr.read_acc,
                          "opened": any(t[0] == "open" and t[2] for t in w.trace) if pr.job["kind"] == "read" else False}
                         for pr in w.procs],
               "problems": list(orc.problems), "src_bytes": dict(w.src_bytes)}
        # reader oracle: an opened artifact extracts completely to the content of one uploader of that build-id
        for pr in w.procs:
            if pr.job["kind"] != "read" or pr.state != "done":
                continue
            opened = any(t[0] == "open" and t[1] == ("dest", pr.job["bid"]) and t[2] for t in w.trace)
            had_fault = any(l[0] == "step" and l[1] == pr.pid and l[2] for l in labels)
            if pr.result[0] == "internal":
                rec["problems"].append(("internal-exception", pr.result[1]))
            elif opened and not had_fault:
                ok_markers = {marker_of(q.job, q.pid).decode() for q in w.procs
                              if q.job["bid"] == pr.job["bid"] and q.job["kind"] == "upload"}
                ok_src = any(q.job["kind"] == "mirror" and q.job["bid"] == pr.job["bid"] for q in w.procs)
                if pr.result[0] != "read" or not (pr.result[1] in ok_markers or (ok_src and pr.result[1].startswith("source-of-"))):
                    rec["problems"].append(("reader-saw-incomplete-artifact", "reader %d got %r" % (pr.pid, pr.result)))
        for pr in w.procs:
            if pr.result and pr.result[0] == "internal" and pr.job["kind"] != "read":
                rec["problems"].append(("internal-exception", pr.result[1]))
        return rec
    finally:
        if w is not None:
            try:
                teardown_world(w)
            except Exception:
                pass
        shutil.rmtree(scratch, ignore_errors=True)
