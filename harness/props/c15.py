"""C15 — the shared package store is safe under concurrent projects.

Correspondence: the real bob.share.LocalShare (imported from the repository as
it is now) is driven by scripted schedules.  Every "process" is a thread that
is stopped at named points by wrappers this harness installs around
OpenLocked.__enter__/__exit__, flock (made non-blocking so that "blocked" is an
observable answer), unlockFile, os.rename, os.utime, os.makedirs, json.dump,
tempfile.TemporaryDirectory.cleanup and the nested useSharedPackage/gc calls.
One scheduler action lets exactly one thread run from its stop point to the
next one; after every action the store listing, repo.json, every pkg.json (and
its mtime, imposed by the harness clock), the temporary and attic directories,
the workspace links, the control point and the API results of every thread are
encoded as a list of numbers whose checksum is compared with the checksum of
[observe] of the Coq model state (BobV.C15.Model.trace, vm_compute).

Direct oracle (independent of the model): the statement of C15 evaluated on
the observations and wrapper events of the implementation.
"""
import os, sys, json, re, glob, shutil, threading, tempfile, time, errno, traceback, random
import fcntl as _fcntl
from vlib import coq, coqlit as L, core

PROPERTY_FILES = ["C15/Properties.v"]

F8_SIG = "share-gc-collects-recorded-user-before-link"
SIG_NEVER_RECORDED = "share-gc-collects-linked-workspace-never-recorded"
SIG_LINKED_RECORDED = "share-gc-collects-package-linked-and-recorded-at-scan"
TICK = 99
CKS_MOD = 2305843009213693951
WRONG = 999            # tree token of a wrong expected hash


# ------------------------------------------------------------------ control point codes (single source: Model.v)
def pc_codes():
    src = open(os.path.join(core.VERIF, "coq", "C15", "Model.v")).read()
    m = re.search(r"Definition pc_code.*?end\.", src, re.S)
    codes = {}
    for nm, val in re.findall(r"\|\s*([A-Za-z]+)\s*=>\s*(\d+)", m.group(0)):
        codes[nm] = int(val)
    for nm, val in re.findall(r"([A-Za-z]+)\s*=>\s*(\d+)", m.group(0)):
        codes.setdefault(nm, int(val))
    return codes


PC = None


def checksum(l):
    acc = 7
    for x in l:
        acc = (acc * 1000003 + x + 1) % CKS_MOD
    return acc


def bid(p):
    return int(p).to_bytes(20, "big")


def bhex(p):
    return bid(p).hex()


def gen_suffix():
    """SHARED_GENERATION of the implementation (read from the code as it is now)"""
    import bob.share
    return bob.share.SHARED_GENERATION


# ------------------------------------------------------------------ the patched world
_tls = threading.local()


def cur():
    return getattr(_tls, "c", None)


class Abort(BaseException):
    pass


class P:
    """one scripted process (thread)"""

    def __init__(self, sim, idx, cfg):
        self.sim = sim
        self.idx = idx
        self.cfg = cfg
        self.ops = cfg["ops"]
        self.label = "PDone"
        self.blocked = False
        self.done = False
        self.results = []        # newest first, encoded
        self.mode = None         # install | use | gc  (innermost API call)
        self.stack = []
        self.kind = None
        self.op = None
        self.tmpdirs = []
        self.failing = False
        self.dirty_pkg = False
        self.copy_stopped = False
        self.meta_clk = None
        self.scan_pkg = None
        self.errors = []


class Sim:
    def __init__(self, case):
        self.case = case
        self.root = core.scratch_dir("c15")
        self.store = os.path.join(self.root, "store")
        if case.get("store_exists"):
            os.makedirs(self.store)
        self.cv = threading.Condition()
        self.turn = None
        self.clk = 0
        self.events = []
        self.procs = [P(self, i, c) for i, c in enumerate(case["procs"])]
        self.threads = []
        self.hash_tok = {}
        self.tok_hash = {}
        self.aborted = False
        # oracle state
        self.claims = {}          # ws -> pkg handed out by the share API and not given up
        self.scan_info = {}       # (gc thread, pkg) -> {"links":..., "users":...}
        self.n_in = {}
        self.n_out = {}
        self.log = []             # (1, p) renamed into the store / (0, p) moved to an attic
        self.violations = []      # (signature, what)

    # ---- paths
    def ws(self, w):
        return os.path.join(self.root, "ws", str(w), "workspace")

    def pkg_path(self, p):
        h = bhex(p) + gen_suffix()
        return os.path.join(self.store, h[0:2], h[2:4], h[4:])

    def content(self, tok, size):
        head = b"%d\n" % tok
        return head + b"x" * max(0, size - len(head))

    def hash_of(self, tok, size):
        from bob.utils import hashDirectory
        k = (tok, size)
        if k not in self.tok_hash:
            d = os.path.join(self.root, "tmpl", "%d_%d" % k)
            os.makedirs(d)
            with open(os.path.join(d, "f"), "wb") as f:
                f.write(self.content(tok, size))
            h = hashDirectory(d)
            self.tok_hash[k] = h
            self.hash_tok[h.hex()] = tok
        return self.tok_hash[k]

    # ---- thread side
    def stop(self, c, label):
        if self.aborted:
            raise Abort()
        with self.cv:
            c.label = label
            self.turn = None
            self.cv.notify_all()
            while self.turn != c.idx:
                self.cv.wait()
        if self.aborted:
            raise Abort()

    def block(self, c):
        with self.cv:
            c.blocked = True
            self.turn = None
            self.cv.notify_all()
            while self.turn != c.idx:
                self.cv.wait()
        if self.aborted:
            raise Abort()

    # ---- controller side
    def grant(self, i):
        c = self.procs[i]
        with self.cv:
            c.blocked = False
            self.turn = i
            self.cv.notify_all()
            t0 = time.time()
            while self.turn is not None:
                self.cv.wait(1.0)
                if time.time() - t0 > 30:
                    raise RuntimeError("thread %d did not reach a stop point (label %s)" % (i, c.label))

    def start(self):
        for c in self.procs:
            t = threading.Thread(target=self.main, args=(c,), daemon=True)
            self.threads.append(t)
            with self.cv:
                self.turn = c.idx
            t.start()
            with self.cv:
                t0 = time.time()
                while self.turn is not None:
                    self.cv.wait(1.0)
                    if time.time() - t0 > 30:
                        raise RuntimeError("thread start")

    def step(self, i):
        """returns True when the thread moved"""
        if i >= len(self.procs) or self.procs[i].done:
            return False
        self.grant(i)
        return not self.procs[i].blocked

    def close(self):
        self.aborted = True
        with self.cv:
            for c in self.procs:
                if not c.done:
                    self.turn = c.idx
                    self.cv.notify_all()
                    t0 = time.time()
                    while self.turn is not None and time.time() - t0 < 5:
                        self.cv.wait(0.2)
        for t in self.threads:
            t.join(2)
        shutil.rmtree(self.root, ignore_errors=True)

    # ---- the programs
    def main(self, c):
        _tls.c = c
        with self.cv:
            while self.turn != c.idx:
                self.cv.wait()
        try:
            for op in c.ops:
                c.op = op
                c.kind = op["k"]
                c.mode = None
                c.stack = []
                c.failing = False
                c.copy_stopped = False
                c.tmpdirs = []
                try:
                    r = getattr(self, "op_" + op["k"])(c, op)
                except Abort:
                    raise
                except BaseException as e:
                    r = self.failure(c, op, e)
                c.results.insert(0, r)
        except Abort:
            pass
        finally:
            c.done = True
            c.label = "PDone"
            with self.cv:
                self.turn = None
                self.cv.notify_all()

    def failure(self, c, op, e):
        from bob.errors import BuildError
        txt = "%s: %s" % (type(e).__name__, e)
        if isinstance(e, BuildError) and "hash changed" in str(e):
            code = 1
        elif isinstance(e, TypeError) and "NoneType" in str(e):
            code = 2
        else:
            code = 9
        c.errors.append({"op": op, "exc": txt, "tb": traceback.format_exc()[-1500:]})
        self.events.append(("exc", c.idx, op["k"], type(e).__name__, str(e)[:200], code))
        return [5, code]

    def share(self, c):
        from bob.share import LocalShare
        spec = {"path": self.store, "autoClean": bool(c.cfg["auto"])}
        if c.cfg["quota"] is not None:
            spec["quota"] = c.cfg["quota"]
        return LocalShare(spec)

    def remove_ws(self, ws):
        if os.path.islink(ws):
            os.unlink(ws)
        elif os.path.isdir(ws):
            shutil.rmtree(ws)
        elif os.path.exists(ws):
            os.unlink(ws)
        a = os.path.join(os.path.dirname(ws), "audit.json.gz")
        if os.path.islink(a) or os.path.exists(a):
            os.unlink(a)

    def link_ws(self, ws, path):
        os.makedirs(os.path.dirname(ws), exist_ok=True)
        os.symlink(os.path.join(path, "workspace"), ws)
        os.symlink(os.path.join(path, "audit.json.gz"), os.path.join(os.path.dirname(ws), "audit.json.gz"))

    def op_install(self, c, op):
        ws = self.ws(op["ws"])
        self.stop(c, "IStart")
        # the package has just been built in a regular workspace directory
        self.remove_ws(ws)
        self.claims.pop(op["ws"], None)
        os.makedirs(ws)
        with open(os.path.join(ws, "f"), "wb") as f:
            f.write(self.content(100 + op["pkg"], op["size"]))
        with open(os.path.join(os.path.dirname(ws), "audit.json.gz"), "wb") as f:
            f.write(b"audit")
        want = self.hash_of(100 + op["pkg"] if op["ok"] else WRONG, op["size"])
        c.mode = "install"
        path, installed = self.share(c).installSharedPackage(ws, bid(op["pkg"]), want, bool(op["link"]))
        c.mode = None
        if op["link"] and os.path.isdir(path):
            # the project has been handed this package (if a forced gc took it away inside the call it is lost anyway)
            self.claims[op["ws"]] = op["pkg"]
        self.events.append(("inst_ret", c.idx, op["ws"], op["pkg"], bool(installed)))
        self.stop(c, "IFinish")
        if op["link"]:
            # builder._installSharedPackage
            self.remove_ws(ws)
            self.link_ws(ws, path)
        return [1, 1 if installed else 0]

    def op_use(self, c, op):
        ws = self.ws(op["ws"])
        self.stop(c, "UOpenRepo")
        c.mode = "use"
        path, h = self.share(c).useSharedPackage(ws, bid(op["pkg"]))
        c.mode = None
        self.events.append(("use_ret", c.idx, op["ws"], op["pkg"], path is not None))
        if path:
            self.claims[op["ws"]] = op["pkg"]
            self.stop(c, "UUnlink")
            target = os.path.join(path, "workspace")
            if os.path.islink(ws) and os.readlink(ws) == target:
                return [2, 1]
            self.remove_ws(ws)
            self.stop(c, "ULink")
            self.link_ws(ws, path)
            return [2, 1]
        self.stop(c, "UUnshare")
        self.claims.pop(op["ws"], None)
        if os.path.islink(ws):
            self.remove_ws(ws)
        return [2, 0]

    def op_gc(self, c, op):
        self.stop(c, "GStart")
        c.mode = "gc"
        removed = []

        def progress(path):
            self.stop(c, "GMove")
            removed.append(self.pkg_of_path(path))
        c.removed = removed
        sz = self.share(c).gc(bool(op["used"]), bool(op["unused"]), bool(op["dry"]), progress)
        c.mode = None
        return ([3, 0] if sz is None else [3, 1, sz]) + [len(removed)] + removed

    def op_unlink(self, c, op):
        self.stop(c, "XUnlink")
        self.claims.pop(op["ws"], None)
        ws = self.ws(op["ws"])
        if os.path.islink(ws):
            self.remove_ws(ws)
        return [4]

    def pkg_of_path(self, path):
        rel = os.path.relpath(path, self.store).replace(os.sep, "")
        return int(rel[:40], 16)

    # ---- observation
    def enc_dir(self, d):
        out = [1 if os.path.exists(os.path.join(d, "audit.json.gz")) else 0]
        f = os.path.join(d, "workspace", "f")
        if os.path.isdir(os.path.join(d, "workspace")):
            try:
                tok = int(open(f, "rb").read().split(b"\n")[0])
            except Exception:
                tok = 77777
            out += [1, tok]
        else:
            out += [0]
        pj = os.path.join(d, "pkg.json")
        if os.path.exists(pj):
            txt = open(pj).read()
            if txt == "":
                out += [0]
            else:
                try:
                    m = json.loads(txt)
                    users = [self.ws_id(u) for u in m.get("users", [])]
                    out += [1, self.hash_tok.get(m.get("hash"), 88888), m.get("size", 66666), len(users)] + users
                    out += [os.stat(pj).st_mtime_ns // 1000]
                except ValueError:
                    out += [55555]
        else:
            out += [0]
        return out

    def ws_id(self, u):
        m = re.match(re.escape(os.path.join(self.root, "ws")) + r"/(\d+)/workspace$", u)
        return int(m.group(1)) if m else 44444

    def visible(self):
        out = {}
        if not os.path.isdir(self.store):
            return out
        for a in sorted(os.listdir(self.store)):
            pa = os.path.join(self.store, a)
            if len(a) != 2 or not os.path.isdir(pa):
                continue
            for b in sorted(os.listdir(pa)):
                pb = os.path.join(pa, b)
                for r in sorted(os.listdir(pb)):
                    if r.endswith(gen_suffix()):
                        out[int(a + b + r[:-len(gen_suffix())], 16)] = os.path.join(pb, r)
        return out

    def read_repo(self):
        fn = os.path.join(self.store, "repo.json")
        if not os.path.exists(fn):
            return None
        txt = open(fn).read()
        if txt == "":
            return []
        try:
            m = json.loads(txt)
        except ValueError:
            return [(33333, 33333)]
        return [(int(k, 16), v) for k, v in m.get("pkgs", {}).items()]

    def read_links(self):
        out = {}
        base = os.path.join(self.root, "ws")
        if not os.path.isdir(base):
            return out
        for w in os.listdir(base):
            ws = os.path.join(base, w, "workspace")
            if os.path.islink(ws):
                try:
                    out[int(w)] = self.pkg_of_path(os.path.dirname(os.readlink(ws)))
                except Exception:
                    out[int(w)] = 22222
        return out

    def observe(self):
        vis = self.visible()
        out = [1 if os.path.isdir(self.store) else 0, len(vis)]
        for p in sorted(vis):
            out += [p] + self.enc_dir(vis[p])
        repo = self.read_repo()
        if repo is None:
            out += [0]
        else:
            out += [1, len(repo)]
            for k, v in repo:
                out += [k, v]
        links = self.read_links()
        out += [len(links)]
        for w in sorted(links):
            out += [w, links[w]]
        out += [len(self.log)]
        for k, p in self.log:
            out += [k, p]
        for c in self.procs:
            out += [PC[c.label], len(c.results)]
            for r in c.results:
                out += r
            tmp = None
            attic = []
            for d in c.tmpdirs:
                if os.path.isdir(os.path.join(d, "pkg")):
                    tmp = os.path.join(d, "pkg")
                elif os.path.isdir(d):
                    attic += [int(x, 16) for x in os.listdir(d) if len(x) == 40]
            out += ([1] + self.enc_dir(tmp)) if tmp else [0]
            out += [len(attic)] + sorted(attic)
        return out, vis, repo, links

    # ---- oracles (the property statement on the implementation)
    def viol(self, sig, what):
        if not any(s == sig for s, _ in self.violations):
            self.violations.append((sig, what))

    def oracle_step(self, vis, repo, links):
        from bob.utils import hashDirectory
        # visible => complete and hashed
        for p, d in vis.items():
            pj = os.path.join(d, "pkg.json")
            ok = os.path.exists(os.path.join(d, "audit.json.gz")) and os.path.isdir(os.path.join(d, "workspace")) \
                and os.path.exists(pj)
            if not ok:
                self.viol("share-visible-package-incomplete", "package %d is visible but incomplete" % p)
                continue
            txt = open(pj).read()
            if txt == "":
                # only while a user holds the exclusive lock with the new text buffered
                if not any(c.label in ("UWrite", "UUnlockPkg") and c.op.get("pkg") == p for c in self.procs):
                    self.viol("share-visible-package-empty-pkg-json", "pkg.json of visible package %d is empty and nobody is writing it" % p)
                continue
            try:
                m = json.loads(txt)
                if bytes.fromhex(m["hash"]) != hashDirectory(os.path.join(d, "workspace")):
                    self.viol("share-visible-package-hash-mismatch", "visible package %d does not match its recorded hash" % p)
            except (ValueError, KeyError):
                self.viol("share-visible-package-corrupt-pkg-json", "pkg.json of visible package %d is corrupt" % p)
        # installed at most once per build-id
        for p in set(self.n_in) | set(vis):
            if self.n_in.get(p, 0) != self.n_out.get(p, 0) + (1 if p in vis else 0):
                self.viol("share-installed-more-than-once", "package %d: %d successful renames, %d collections, visible=%s"
                          % (p, self.n_in.get(p, 0), self.n_out.get(p, 0), p in vis))
        # accounting, whenever nobody is inside an update
        busy = any(c.label in ("IWrite", "IUnlock", "GScan", "GScanLock", "GScanUnlock", "GMove", "GUnlock") for c in self.procs)
        if not busy:
            self.oracle_accounting(vis, repo, final=False)

    def oracle_accounting(self, vis, repo, final):
        acc = dict(repo or [])
        pending = set()
        for c in self.procs:
            if c.kind == "install" and c.label in ("IOpenRepo", "ICreateRepo", "ILockRepo", "IWrite", "IUnlock") and not c.stack:
                pending.add(c.op["pkg"])
        for p, sz in acc.items():
            if p not in vis:
                self.viol("share-repo-json-lists-missing-package", "repo.json accounts package %d which is not installed" % p)
            else:
                try:
                    m = json.load(open(os.path.join(vis[p], "pkg.json")))
                    if m.get("size") != sz:
                        self.viol("share-repo-json-size-mismatch", "repo.json size of %d is %r, package says %r" % (p, sz, m.get("size")))
                except ValueError:
                    pass
        for p in vis:
            if p not in acc and p not in pending:
                self.viol("share-installed-package-not-accounted", "package %d is installed but not in repo.json and nobody is about to add it" % p)

    def on_collect(self, c, p, nested):
        """wrapper event: gc thread c moves package p to its attic (not a dry run)"""
        self.n_out[p] = self.n_out.get(p, 0) + 1
        self.log.append((0, p))
        forced = (c.kind == "gc" and c.op["used"])
        if forced:
            # the user asked for it: whoever used this package has lost it
            for w in [w for w, q in self.claims.items() if q == p]:
                del self.claims[w]
            return
        info = self.scan_info.get((c.idx, p), {"links": {}, "users": []})
        for w, q in list(self.claims.items()):
            if q != p:
                continue
            linked = info["links"].get(w) == p
            recorded = w in info["users"]
            if linked and recorded:
                self.viol(SIG_LINKED_RECORDED, "package %d collected by a non-forced gc although workspace %d was recorded and linked when it was scanned" % (p, w))
            elif linked:
                self.viol(SIG_NEVER_RECORDED, "package %d collected by a non-forced gc although workspace %d links to it (never recorded in users)" % (p, w))
            else:
                self.viol(F8_SIG, "package %d, handed to workspace %d by a completed share call, collected by a non-forced gc before that workspace's link exists" % (p, w))
            del self.claims[w]

    def on_gc_done(self, c, nested):
        """gc finished its loop: only unused, oldest first, until the quota is met"""
        forced = (c.kind == "gc" and c.op["used"])
        allun = (c.kind == "gc" and c.op["unused"])
        if forced:
            return
        quota = c.cfg["quota"]
        scans = [v for (i, p), v in self.scan_info.items() if i == c.idx]
        col = list(c.removed) if (c.kind == "gc") else list(c.collected)
        unused = {}
        for v in scans:
            un = all(v["links"].get(w) != v["pkg"] for w in v["users"]) and not (nested and v["pkg"] == c.op["pkg"])
            if un:
                unused[v["pkg"]] = (v["mtime"], v["size"], v["pkg"])
        total = c.gc_total
        for p in col:
            if p not in unused:
                self.viol("share-gc-collects-used-or-new-package", "non-forced gc collected %d which was used (or the new package) when scanned" % p)
        keys = [unused[p] for p in col if p in unused]
        if keys != sorted(keys):
            self.viol("share-gc-not-oldest-first", "collected in order %r" % (keys,))
        rest = [k for p, k in unused.items() if p not in col]
        if keys and rest and min(rest) < max(keys):
            self.viol("share-gc-not-oldest-first", "kept %r but collected %r" % (min(rest), max(keys)))
        if allun:
            if rest:
                self.viol("share-gc-all-unused-keeps-unused", "kept unused %r" % (rest,))
            return
        if quota is None:
            return
        size = total
        for p in col:
            if size <= quota:
                self.viol("share-gc-collects-below-quota", "collected %d although the size %d was within the quota %d" % (p, size, quota))
            size -= unused.get(p, (0, 0, 0))[1]
        if size > quota and rest:
            self.viol("share-gc-stops-above-quota", "stopped at %d > quota %d with unused packages left" % (size, quota))


SIM = None


# ------------------------------------------------------------------ wrappers
class Patches:
    def __init__(self):
        import bob.share as S
        self.S = S
        self.saved = []

    def set(self, obj, name, val):
        self.saved.append((obj, name, getattr(obj, name)))
        setattr(obj, name, val)

    def install(self):
        S = self.S
        real_fcntl = _fcntl
        P_ = self

        class Shim:
            LOCK_EX = real_fcntl.LOCK_EX
            LOCK_SH = real_fcntl.LOCK_SH
            LOCK_UN = real_fcntl.LOCK_UN
            LOCK_NB = real_fcntl.LOCK_NB

            @staticmethod
            def flock(fd, op):
                c = cur()
                if c is None or (op & real_fcntl.LOCK_UN):
                    return real_fcntl.flock(fd, op)
                base = os.path.basename(fd.name)
                lab = {("repo.json", "install"): "ILockRepo", ("repo.json", "use"): "ULockRepo",
                       ("repo.json", "gc"): "GLock", ("pkg.json", "use"): "ULockPkg",
                       ("pkg.json", "gc"): "GScanLock"}.get((base, c.mode))
                if lab:
                    c.sim.stop(c, lab)
                while True:
                    try:
                        real_fcntl.flock(fd, op | real_fcntl.LOCK_NB)
                        break
                    except BlockingIOError:
                        c.sim.block(c)
                if lab == "GScanLock":
                    sim = c.sim
                    p = c.scan_pkg
                    try:
                        users = [sim.ws_id(u) for u in json.load(open(fd.name)).get("users", [])]
                    except ValueError:
                        users = []
                    size = dict(sim.read_repo() or []).get(p) if not c.gc_meta else c.gc_meta.get(p)
                    sim.scan_info[(c.idx, p)] = {"pkg": p, "links": sim.read_links(), "users": users,
                                                 "mtime": os.stat(fd.name).st_mtime_ns // 1000, "size": size}
                if lab == "GLock":
                    c.gc_meta = dict(c.sim.read_repo() or [])
                    c.gc_total = sum(c.gc_meta.values())
                    c.collected = []
                    for k in [k for k in c.sim.scan_info if k[0] == c.idx]:
                        del c.sim.scan_info[k]

        self.set(S, "fcntl", Shim)

        o_enter = S.OpenLocked.__enter__
        o_exit = S.OpenLocked.__exit__

        def enter(self_):
            c = cur()
            if c is not None:
                base = os.path.basename(self_.fileName)
                lab = None
                if base == "repo.json" and c.mode == "install":
                    lab = "IOpenRepo" if self_.mode == "r+" else "ICreateRepo"
                elif base == "pkg.json" and c.mode == "use":
                    lab = "UOpenPkg"
                elif base == "pkg.json" and c.mode == "gc":
                    lab = "GScan"
                    c.scan_pkg = c.sim.pkg_of_path(os.path.dirname(self_.fileName))
                if lab:
                    c.sim.stop(c, lab)
            return o_enter(self_)

        def exit_(self_, et, ev, tb):
            c = cur()
            if c is not None:
                base = os.path.basename(self_.fileName)
                if et is not None:
                    c.failing = True
                else:
                    lab = {("repo.json", "install"): "IUnlock", ("repo.json", "use"): "UUnlockRepo",
                           ("repo.json", "gc"): "GUnlock", ("pkg.json", "use"): "UUnlockPkg",
                           ("pkg.json", "gc"): "GScanUnlock"}.get((base, c.mode))
                    if lab == "GUnlock":
                        c.sim.on_gc_done(c, c.kind == "install")
                    if lab:
                        c.sim.stop(c, lab)
            return o_exit(self_, et, ev, tb)

        self.set(S.OpenLocked, "__enter__", enter)
        self.set(S.OpenLocked, "__exit__", exit_)

        o_unlock = S.unlockFile

        def unlockFile(fd):
            c = cur()
            if c is not None and not c.failing:
                base = os.path.basename(fd.name)
                if base == "pkg.json" and c.mode == "use" and c.dirty_pkg:
                    # impose the harness clock on the data that has been flushed under the lock
                    t = c.sim.clk * 1000
                    try:
                        os.utime(fd.fileno(), ns=(t, t))
                    except OSError:
                        pass
                    c.dirty_pkg = False
            o_unlock(fd)
            if c is not None and not c.failing:
                base = os.path.basename(fd.name)
                lab = {("repo.json", "install"): "IClose", ("repo.json", "gc"): "GClose",
                       ("pkg.json", "use"): "UClosePkg"}.get((base, c.mode))
                if lab:
                    c.sim.stop(c, lab)

        self.set(S, "unlockFile", unlockFile)

        o_dump = json.dump

        def dump(obj, f, *a, **kw):
            c = cur()
            if c is None:
                return o_dump(obj, f, *a, **kw)
            base = os.path.basename(getattr(f, "name", "") or "")
            if base == "pkg.json" and f.mode == "w":
                c.sim.stop(c, "IMeta")
                r = o_dump(obj, f, *a, **kw)
                f.flush()
                t = c.sim.clk * 1000
                os.utime(f.fileno(), ns=(t, t))
                return r
            if base == "pkg.json" and c.mode == "use":
                c.sim.stop(c, "UWrite")
                c.dirty_pkg = True
            elif base == "repo.json" and c.mode == "install":
                c.sim.stop(c, "IWrite")
            return o_dump(obj, f, *a, **kw)

        self.set(json, "dump", dump)

        o_utime = os.utime

        def utime(path, *a, **kw):
            c = cur()
            if c is not None and c.mode == "use" and isinstance(path, str) and path.endswith("pkg.json") and not a and not kw:
                c.sim.stop(c, "UWrite")
                t = c.sim.clk * 1000
                return o_utime(path, ns=(t, t))
            return o_utime(path, *a, **kw)

        self.set(os, "utime", utime)

        o_rename = os.rename

        def rename(src, dst, *a, **kw):
            c = cur()
            if c is None:
                return o_rename(src, dst, *a, **kw)
            sim = c.sim
            if c.mode == "install" and os.path.basename(str(src)) == "pkg":
                sim.stop(c, "IRename")
                r = o_rename(src, dst, *a, **kw)
                p = c.op["pkg"]
                sim.n_in[p] = sim.n_in.get(p, 0) + 1
                sim.log.append((1, p))
                return r
            if c.mode == "gc" and os.path.dirname(str(dst)) in c.tmpdirs:
                p = sim.pkg_of_path(src)
                if c.kind == "install":
                    sim.stop(c, "GMove")
                r = o_rename(src, dst, *a, **kw)
                c.collected.append(p)
                sim.on_collect(c, p, c.kind == "install")
                return r
            return o_rename(src, dst, *a, **kw)

        self.set(os, "rename", rename)

        o_makedirs = os.makedirs

        def makedirs(path, *a, **kw):
            c = cur()
            if c is not None and c.mode == "install" and not c.copy_stopped and not c.stack:
                c.copy_stopped = True
                c.sim.stop(c, "ICopy")
            return o_makedirs(path, *a, **kw)

        self.set(os, "makedirs", makedirs)

        o_mkdtemp = tempfile.mkdtemp

        def mkdtemp(*a, **kw):
            r = o_mkdtemp(*a, **kw)
            c = cur()
            if c is not None:
                c.tmpdirs.append(r)
            return r

        self.set(tempfile, "mkdtemp", mkdtemp)

        o_cleanup = tempfile.TemporaryDirectory.cleanup

        def cleanup(self_):
            c = cur()
            if c is not None and c.mode == "gc" and not c.failing and self_.name in c.tmpdirs:
                c.sim.stop(c, "GClean")
            return o_cleanup(self_)

        self.set(tempfile.TemporaryDirectory, "cleanup", cleanup)

        o_use = S.LocalShare.useSharedPackage
        o_gc = S.LocalShare.gc

        def use(self_, workspace, buildId):
            c = cur()
            if c is None or c.mode != "install":
                return o_use(self_, workspace, buildId)
            c.stack.append(c.mode)
            c.mode = "use"
            try:
                c.sim.stop(c, "UOpenRepo")
                return o_use(self_, workspace, buildId)
            finally:
                c.mode = c.stack.pop()

        def gc(self_, *a, **kw):
            c = cur()
            if c is None or c.mode != "install":
                return o_gc(self_, *a, **kw)
            c.stack.append(c.mode)
            c.mode = "gc"
            try:
                c.sim.stop(c, "GStart")
                return o_gc(self_, *a, **kw)
            finally:
                c.mode = c.stack.pop()

        self.set(S.LocalShare, "useSharedPackage", use)
        self.set(S.LocalShare, "gc", gc)
        # UI only: warnings go to the terminal
        for nm in ("warnRepoSize", "warnGcDidNotHelp", "warnEscapedHardLink"):
            w = getattr(S, nm)
            self.set(w, "show", lambda *a, **k: None)

    def remove(self):
        for obj, name, val in reversed(self.saved):
            setattr(obj, name, val)
        self.saved = []


# ------------------------------------------------------------------ running one case on the implementation
def run_impl(case, chooser=None, max_actions=700):
    """Runs the schedule case["sched"] (or, when chooser is given, lets it pick
    the actions) and then drains round-robin.  Returns a dict with the recorded
    schedule, per-action (refused, checksum), full observations, violations."""
    sim = Sim(case)
    out = {"sched": [], "trace": [], "obs": [], "violations": [], "errors": [], "deadlock": False}
    try:
        sim.start()

        def do(a):
            if a == TICK:
                sim.clk += 1
                moved = True
            else:
                moved = sim.step(a)
            o, vis, repo, links = sim.observe()
            sim.oracle_step(vis, repo, links)
            out["sched"].append(a)
            out["trace"] += [0 if moved else 1, checksum(o)]
            out["obs"].append(o)
            return moved

        if chooser is not None:
            for a in chooser(sim):
                if len(out["sched"]) >= max_actions:
                    break
                do(a)
        else:
            for a in case["sched"]:
                do(a)
        # drain
        idle_rounds = 0
        while not all(c.done for c in sim.procs) and len(out["sched"]) < max_actions + 400:
            progressed = False
            for c in sim.procs:
                if not c.done:
                    if do(c.idx):
                        progressed = True
            if not progressed:
                idle_rounds += 1
                if idle_rounds >= 2:
                    out["deadlock"] = True
                    sim.viol("share-deadlock", "no process can move: " + ", ".join(c.label for c in sim.procs))
                    break
        if all(c.done for c in sim.procs):
            o, vis, repo, links = sim.observe()
            sim.oracle_accounting(vis, repo, final=True)
            if repo is not None and set(dict(repo)) != set(vis):
                sim.viol("share-repo-json-differs-from-installed", "at rest repo.json lists %r, installed %r" % (sorted(dict(repo)), sorted(vis)))
            # sizes returned by the API
        for c in sim.procs:
            for e in c.errors:
                code = 1 if "hash changed" in e["exc"] else (2 if e["exc"].startswith("TypeError") and "NoneType" in e["exc"] else 9)
                op = e["op"]
                if code == 1 and op["k"] == "install" and not op["ok"]:
                    continue      # genuine: the tree does not match the recorded result hash
                if code == 2 and op["k"] == "gc" and c.cfg["quota"] is None and op["used"] and op["unused"]:
                    out.setdefault("noted", []).append("TypeError repoSize <= None (clean --shared --used --all-unused without quota)")
                    continue      # outside the property text; reported, not flagged
                sig = "share-spurious-failure:" + e["exc"].split(":")[0]
                if "Build error:" in e["exc"]:
                    words = re.findall(r"[A-Za-z]+", e["exc"].split("Build error:", 1)[1])[:3]
                    sig += ":" + "-".join(w.lower() for w in words)
                sim.viol(sig, "%s failed: %s" % (op["k"], e["exc"][:300]))
                out["errors"].append(e)
        out["violations"] = list(sim.violations)
        out["results"] = [list(c.results) for c in sim.procs]
        out["events"] = [e for e in sim.events if e[0] == "exc"]
    finally:
        sim.close()
    return out


# ------------------------------------------------------------------ generators
SIZES = [5, 10, 20, 30]


def gen_procs(rng, nproc=None):
    nproc = nproc or rng.choice([2, 2, 3, 3, 4])
    npk = rng.choice([1, 2, 2, 3, 4])
    sizes = {p: rng.choice(SIZES) for p in range(1, npk + 1)}
    quotas = [None, 0, 5, 10, 15, 25, 40, 1000]
    shared_q = rng.choice(quotas)
    procs = []
    for i in range(nproc):
        q = shared_q if rng.random() < 0.7 else rng.choice(quotas)
        auto = rng.random() < 0.85
        ops = []
        wss = [10 * (i + 1) + j for j in range(2)]
        for _ in range(rng.choice([1, 2, 2, 3, 4])):
            r = rng.random()
            p = rng.randint(1, npk)
            w = wss[0] if rng.random() < 0.8 else wss[1]
            if r < 0.45:
                ops.append({"k": "install", "pkg": p, "ws": w, "size": sizes[p], "ok": rng.random() < 0.92,
                            "link": rng.random() < 0.75})
            elif r < 0.72:
                ops.append({"k": "use", "pkg": p, "ws": w})
            elif r < 0.9:
                ops.append({"k": "gc", "used": rng.random() < 0.25, "unused": rng.random() < 0.3, "dry": rng.random() < 0.2})
            else:
                ops.append({"k": "unlink", "ws": w})
        procs.append({"quota": q, "auto": auto, "ops": ops})
    return procs


WINDOWS = ["UUnlink", "ULink", "IFinish", "IOpenRepo", "ICreateRepo", "ILockRepo", "IWrite", "IUnlock", "IClose",
           "UClosePkg", "UUnlockPkg", "UWrite", "GScan", "GScanUnlock", "GMove", "GClose", "GClean", "IRename",
           "UOpenPkg", "ULockPkg", "GLock", "GStart", "IMeta"]


def chooser_random(rng):
    def ch(sim):
        n = len(sim.procs)
        budget = rng.randint(10, 120)
        while budget > 0 and not all(c.done for c in sim.procs):
            r = rng.random()
            if r < 0.15:
                budget -= 1
                yield TICK
                continue
            i = rng.randrange(n)
            if sim.procs[i].done and rng.random() < 0.9:
                continue
            if r < 0.45:
                k = rng.randint(1, 4)
            elif r < 0.8:
                k = rng.randint(3, 12)
            else:
                # run to the end of the current operation
                k = 60
                nres = len(sim.procs[i].results)
                while k > 0 and not sim.procs[i].done and len(sim.procs[i].results) == nres and not sim.procs[i].blocked:
                    k -= 1
                    budget -= 1
                    yield i
                    if sim.procs[i].blocked:
                        break
                continue
            for _ in range(k):
                budget -= 1
                yield i
                if sim.procs[i].blocked or sim.procs[i].done:
                    break
    return ch


def chooser_window(rng):
    """park one process inside a window, run the others, resume"""
    def ch(sim):
        n = len(sim.procs)
        order = list(range(n))
        rng.shuffle(order)
        parked = []
        for i in order[:-1] if n > 1 else order:
            if rng.random() < 0.25:
                continue
            target = rng.choice(WINDOWS)
            k = 0
            if rng.random() < 0.5:
                yield TICK
            while not sim.procs[i].done and sim.procs[i].label != target and k < 80 and not sim.procs[i].blocked:
                k += 1
                yield i
            parked.append(i)
            if rng.random() < 0.3:
                yield TICK
        rest = [i for i in range(n) if i not in parked]
        rng.shuffle(rest)
        for i in rest:
            k = 0
            while not sim.procs[i].done and k < 150 and not sim.procs[i].blocked:
                k += 1
                yield i
            if rng.random() < 0.5:
                yield TICK
        rng.shuffle(parked)
        for i in parked:
            k = 0
            while not sim.procs[i].done and k < 150 and not sim.procs[i].blocked:
                k += 1
                yield i
    return ch


def chooser_script(script):
    """hand-written schedules of the corpus: [["until", i, label] | ["op", i] | ["all", i] | ["n", i, k] | ["tick"]]
    (interpreted against the running implementation, so that they stay meaningful when step counts change)"""
    def ch(sim):
        for cmd in script:
            if cmd[0] == "tick":
                yield TICK
            elif cmd[0] == "until":
                _, i, lab = cmd
                k = 0
                while not sim.procs[i].done and sim.procs[i].label != lab and k < 200 and not sim.procs[i].blocked:
                    k += 1
                    yield i
            elif cmd[0] == "op":
                _, i = cmd
                n = len(sim.procs[i].results)
                k = 0
                while not sim.procs[i].done and len(sim.procs[i].results) == n and k < 200 and not sim.procs[i].blocked:
                    k += 1
                    yield i
            elif cmd[0] == "all":
                _, i = cmd
                k = 0
                while not sim.procs[i].done and k < 400 and not sim.procs[i].blocked:
                    k += 1
                    yield i
            elif cmd[0] == "n":
                for _ in range(cmd[2]):
                    yield cmd[1]
    return ch


# ------------------------------------------------------------------ Coq literals
PRE = """
Definition mo (k : okind) (p w t sz e : N) (l u un d : bool) : op :=
  {| o_kind := k; o_pkg := p; o_ws := w; o_tree := t; o_size := sz; o_expect := e; o_link := l;
     o_used := u; o_unused := un; o_dry := d |}.
Definition sch (l : list N) : list action := map (fun x => if x =? 99 then Tick else Step (N.to_nat x)) l.
Definition run_case (c : (bool * list proc) * list N) : list N := trace (init (fst (fst c)) (snd (fst c))) (sch (snd c)).
Definition full_case (c : (bool * list proc) * list N) : list (list N) :=
  trace_full (init (fst (fst c)) (snd (fst c))) (sch (snd c)).
"""


def coq_op(o):
    k = o["k"]
    if k == "install":
        t = 100 + o["pkg"]
        return "(mo KInstall %d %d %d %d %d %s false false false)" % (o["pkg"], o["ws"], t, o["size"], t if o["ok"] else WRONG, L.B(o["link"]))
    if k == "use":
        return "(mo KUse %d %d 0 0 0 false false false false)" % (o["pkg"], o["ws"])
    if k == "gc":
        return "(mo KGc 0 0 0 0 0 false %s %s %s)" % (L.B(o["used"]), L.B(o["unused"]), L.B(o["dry"]))
    return "(mo KUnlink 0 %d 0 0 0 false false false false)" % o["ws"]


def coq_procs(procs):
    return L.lst(["(mk_proc %s %s %s)" % ("None" if p["quota"] is None else "(Some %d)" % p["quota"], L.B(p["auto"]),
                                          L.lst([coq_op(o) for o in p["ops"]]) if p["ops"] else "(@nil op)") for p in procs]) \
        if procs else "(@nil proc)"


def coq_case(procs, sched, store_exists=False):
    return "((%s, %s), %s)" % (L.B(bool(store_exists)), coq_procs(procs), L.lst([str(a) for a in sched]) if sched else "(@nil N)")


def nlist(xs):
    return L.lst([str(x) for x in xs]) if xs else "(@nil N)"


# ------------------------------------------------------------------ shrinking a failing case
def shrink(case, sig, budget=40):
    """greedy: drop processes, operations, schedule actions while the same signature is reported"""
    def fails(c):
        try:
            r = run_impl(c)
        except Exception:
            return None
        return r if any(s == sig for s, _ in r["violations"]) else None

    best = {"procs": case["procs"], "sched": list(case["sched"]), "store_exists": case.get("store_exists", False)}
    r0 = fails(best)
    if r0 is None:
        return case, None
    best["sched"] = r0["sched"]
    n = 0
    changed = True
    while changed and n < budget:
        changed = False
        # drop an operation (renumbering nothing: schedule indices stay)
        for i, p in enumerate(best["procs"]):
            for j in range(len(p["ops"])):
                if n >= budget:
                    break
                cand = json.loads(json.dumps(best))
                del cand["procs"][i]["ops"][j]
                n += 1
                r = fails(cand)
                if r is not None:
                    cand["sched"] = r["sched"]
                    best = cand
                    changed = True
                    break
            if changed:
                break
        if changed:
            continue
        # drop schedule chunks
        k = max(1, len(best["sched"]) // 4)
        while k >= 1 and n < budget:
            i = 0
            while i < len(best["sched"]) and n < budget:
                cand = dict(best)
                cand["sched"] = best["sched"][:i] + best["sched"][i + k:]
                n += 1
                r = fails(cand)
                if r is not None and len(r["sched"]) < len(best["sched"]):
                    cand["sched"] = r["sched"]
                    best = cand
                    changed = True
                else:
                    i += k
            k //= 2
    r = fails(best)
    return best, r


# ------------------------------------------------------------------ free running stress (real processes, no scheduling)
def stress_worker(store, root, idx, seed, nops, npk, quota, conn):
    """runs in a forked child: random operations on the shared store"""
    import bob.share as S
    from bob.share import LocalShare
    from bob.utils import hashDirectory
    from bob.errors import BuildError
    rng = random.Random(seed)
    log = []
    try:
        for w in (S.warnRepoSize, S.warnGcDidNotHelp):
            w.show = lambda *a, **k: None
        o_rename = os.rename
        state = {"forced": False}

        def rename(src, dst, *a, **kw):
            r = o_rename(src, dst, *a, **kw)
            if str(src).endswith(gen_suffix()) and os.path.basename(os.path.dirname(str(dst))).startswith("tmp"):
                log.append(("collect", int(os.path.relpath(src, store).replace(os.sep, "")[:40], 16), state["forced"], 0,
                            time.monotonic_ns(), 0, 0))
            return r
        os.rename = rename
        spec = {"path": store}
        if quota is not None:
            spec["quota"] = quota
        sh = LocalShare(spec)
        for n in range(nops):
            p = rng.randint(1, npk)
            ws = os.path.join(root, "ws", "%d_%d" % (idx, rng.randint(0, 1)), "workspace")
            r = rng.random()
            t0 = time.monotonic_ns()
            try:
                if r < 0.5:
                    if os.path.islink(ws):
                        os.unlink(ws)
                    elif os.path.isdir(ws):
                        shutil.rmtree(ws)
                    os.makedirs(ws)
                    with open(os.path.join(ws, "f"), "wb") as f:
                        f.write(b"%d\n" % (100 + p) + b"x" * (8 * p))
                    with open(os.path.join(os.path.dirname(ws), "audit.json.gz"), "wb") as f:
                        f.write(b"a")
                    path, inst = sh.installSharedPackage(ws, bid(p), hashDirectory(ws), True)
                    t1 = time.monotonic_ns()
                    if os.path.islink(ws):
                        os.unlink(ws)
                    elif os.path.isdir(ws):
                        shutil.rmtree(ws)
                    os.symlink(os.path.join(path, "workspace"), ws)
                    log.append(("install", p, ws, bool(inst), t0, t1, time.monotonic_ns()))
                elif r < 0.8:
                    path, h = sh.useSharedPackage(ws, bid(p))
                    t1 = time.monotonic_ns()
                    if path:
                        if os.path.islink(ws):
                            os.unlink(ws)
                        elif os.path.isdir(ws):
                            shutil.rmtree(ws)
                        os.makedirs(os.path.dirname(ws), exist_ok=True)
                        os.symlink(os.path.join(path, "workspace"), ws)
                    elif os.path.islink(ws):
                        os.unlink(ws)
                    log.append(("use", p, ws, path is not None, t0, t1, time.monotonic_ns()))
                else:
                    rem = []
                    forced = rng.random() < 0.15
                    state["forced"] = forced
                    allun = rng.random() < 0.3
                    if quota is None and forced:
                        allun = False     # --used --all-unused without quota is a TypeError (outside the property text)
                    try:
                        sz = sh.gc(forced, allun, False, rem.append)
                    finally:
                        state["forced"] = False
                    log.append(("gc", forced, [os.path.relpath(x, store) for x in rem], sz, t0, time.monotonic_ns(), 0))
            except BuildError as e:
                log.append(("exc", "BuildError", str(e)[:300], 0, t0, 0, 0))
            except BaseException as e:
                log.append(("exc", type(e).__name__, str(e)[:300], 0, t0, 0, 0))
    finally:
        conn.send(log)
        conn.close()


def stress_run(ctx, seed):
    """one free-running run; returns list of (signature, what)"""
    import multiprocessing as mp
    from bob.utils import hashDirectory
    rng = random.Random(seed)
    root = core.scratch_dir("c15s")
    store = os.path.join(root, "store")
    viol = []
    try:
        npk = rng.choice([1, 2, 3])
        quota = rng.choice([None, 0, 20, 30, 60, 1000])
        nw = rng.choice([2, 3, 4])
        mpc = mp.get_context("fork")
        conns = []
        procs = []
        for i in range(nw):
            a, b = mpc.Pipe(False)
            p = mpc.Process(target=stress_worker, args=(store, root, i, seed * 101 + i, rng.randint(2, 5), npk, quota, b))
            procs.append(p)
            conns.append(a)
        for p in procs:
            p.start()
        # concurrent observer: a visible package is complete
        deadline = time.time() + 60
        while any(p.is_alive() for p in procs) and time.time() < deadline:
            try:
                for a in os.listdir(store):
                    if len(a) != 2:
                        continue
                    for b in os.listdir(os.path.join(store, a)):
                        for r in os.listdir(os.path.join(store, a, b)):
                            d = os.path.join(store, a, b, r)
                            try:
                                names = set(os.listdir(d))
                            except OSError:
                                continue
                            time.sleep(0.0005)
                            if not {"audit.json.gz", "workspace", "pkg.json"} <= names and os.path.isdir(d):
                                try:
                                    os.stat(d)
                                    names = set(os.listdir(d))
                                    if not {"audit.json.gz", "workspace", "pkg.json"} <= names:
                                        viol.append(("share-visible-package-incomplete", "observer saw %s with %r" % (r, sorted(names))))
                                except OSError:
                                    pass
            except OSError:
                pass
            time.sleep(0.001)
        logs = []
        for a, p in zip(conns, procs):
            logs.append(a.recv() if a.poll(30) else [("exc", "Timeout", "worker did not finish", 0, 0, 0, 0)])
            p.join(10)
            if p.is_alive():
                p.terminate()
        ctx.count("stress:workers", nw)
        # ---- invariants at rest
        vis = {}
        if os.path.isdir(store):
            for a in os.listdir(store):
                if len(a) == 2:
                    for b in os.listdir(os.path.join(store, a)):
                        for r in os.listdir(os.path.join(store, a, b)):
                            vis[a + b + r[:-len(gen_suffix())]] = os.path.join(store, a, b, r)
            left = [x for x in os.listdir(store) if x.startswith("tmp")]
            if left:
                viol.append(("share-temporary-directory-left", repr(left)))
        repo = {}
        fn = os.path.join(store, "repo.json")
        if os.path.exists(fn):
            try:
                txt = open(fn).read()
                repo = json.loads(txt).get("pkgs", {}) if txt else {}
            except ValueError:
                viol.append(("share-repo-json-corrupt", open(fn).read()[:200]))
        if set(repo) != set(vis):
            viol.append(("share-repo-json-differs-from-installed", "repo.json %r installed %r" % (sorted(repo), sorted(vis))))
        for k, d in vis.items():
            try:
                m = json.load(open(os.path.join(d, "pkg.json")))
                if bytes.fromhex(m["hash"]) != hashDirectory(os.path.join(d, "workspace")):
                    viol.append(("share-visible-package-hash-mismatch", k))
                if k in repo and repo[k] != m["size"]:
                    viol.append(("share-repo-json-size-mismatch", k))
            except (ValueError, KeyError, OSError) as e:
                viol.append(("share-visible-package-corrupt-pkg-json", "%s: %s" % (k, e)))
        n_inst = {}
        n_coll = {}
        forced_any = False
        gcs = []
        for lg in logs:
            for e in lg:
                if e[0] == "exc":
                    viol.append(("share-spurious-failure:" + e[1], e[2]))
                elif e[0] == "install" and e[3]:
                    n_inst[e[1]] = n_inst.get(e[1], 0) + 1
                elif e[0] == "gc":
                    forced_any |= e[1]
                elif e[0] == "collect":
                    gcs.append(e)
                    n_coll[e[1]] = n_coll.get(e[1], 0) + 1
        for p, n in n_inst.items():
            if n > n_coll.get(p, 0) + (1 if bhex(p) in vis else 0):
                viol.append(("share-installed-more-than-once", "package %d: %d installs, %d collections" % (p, n, n_coll.get(p, 0))))
        # dangling links: the last share call of that workspace handed out a package that a non-forced gc removed
        last = {}
        for lg in logs:
            for e in lg:
                if e[0] in ("install", "use") and (e[0] == "install" or e[3]):
                    last[e[2]] = e
        for ws, e in last.items():
            if os.path.islink(ws) and not os.path.exists(ws) and not forced_any:
                # the collecting gc overlapped the window between the share call's return and the link
                # e = (kind, pkg, ws, ok, t_call, t_return, t_linked); the package was moved away before the link existed
                inwin = any(g[1] == e[1] and e[4] < g[4] < e[6] for g in gcs)
                if inwin:
                    viol.append((F8_SIG, "free run: workspace link created after a concurrent non-forced gc collected package %d" % e[1]))
                else:
                    viol.append(("share-gc-collected-linked-package-free-run", "workspace %s dangles, package %d collected outside the link window" % (ws, e[1])))
    finally:
        shutil.rmtree(root, ignore_errors=True)
    return viol


# ------------------------------------------------------------------ corpus / replay
def load_corpus():
    out = []
    for p in sorted(glob.glob(os.path.join(core.VERIF, "corpus", "C15", "*.json"))):
        d = json.load(open(p))
        d["_file"] = os.path.basename(p)
        out.append(d)
    return out


def check_case(ctx, case, res, tag):
    """bookkeeping common to generated and corpus cases; returns the Coq case tuple"""
    ctx.evaluated()
    kinds = [o["k"] for p in case["procs"] for o in p["ops"]]
    ctx.count("%s:procs=%d" % (tag, len(case["procs"])))
    for k in set(kinds):
        ctx.count("op:" + k, kinds.count(k))
    blocked = sum(res["trace"][0::2])
    if blocked:
        ctx.count("cases-with-blocked-lock-attempts")
    if len(case["procs"]) >= 2 and len(kinds) >= 2:
        ctx.nontrivial((json.dumps(case["procs"], sort_keys=True), tuple(res["sched"])))
    for n in res.get("noted", []):
        ctx.count("noted:" + n)
    return (coq_case(case["procs"], res["sched"], case.get("store_exists")), nlist(res["trace"]))


def report_violations(ctx, case, res, do_shrink=True):
    for sig, what in res["violations"]:
        c2, r2 = (case, None)
        if do_shrink:
            try:
                c2, r2 = shrink({"procs": case["procs"], "sched": res["sched"], "store_exists": case.get("store_exists", False)}, sig)
            except Exception:
                c2, r2 = case, None
        rep = {"procs": c2["procs"], "sched": (r2 or res)["sched"], "store_exists": c2.get("store_exists", False),
               "signature": sig, "what": what}
        ctx.violation(sig, what, rep)


def run(ctx):
    global PC
    PC = pc_codes()
    ctx.rule = ("2-4 scripted processes with 1-4 operations each (install [right/wrong hash, linking or not] / use / gc "
                "[used, all-unused, dry] / unlink) on 1-4 build-ids, quotas from None to 1000, interleaved step by step "
                "(random bursts, and 'window' schedules that park a process at a named control point while the others run); "
                "a case is non-trivial when at least two processes and two operations are involved; distinct by (programs, schedule)")
    ctx.assumptions += [
        "PROVED (Coq, all interleavings, any number of processes/packages/quotas, both initial store conditions): "
        "visible_is_complete_and_hashed (+ truncated_pkg_json_has_writer), lock_protocol_excludes, installed_at_most_once, "
        "repo_size_is_sum, auto_gc_only_unused_oldest_first_until_quota (bookkeeping of every gc run; sizes relative to the "
        "running repoSize of that run), no_spurious_failure, never_collected_while_used_partial; never_collected_while_used "
        "is REFUTED in the model by the F8 schedule (never_collected_while_used_refuted) and on the implementation by the corpus witnesses",
        "NOT proved, only exercised by the scripted schedules and the free running processes: absence of deadlock "
        "(oracle share-deadlock), that the model is the code (trace correspondence), real kernel interleavings",
        "flock, rename and O_EXCL/O_APPEND-create semantics of the kernel are modelled (shared/exclusive advisory locks, atomic rename), not verified",
        "locks are a function of the control point (held exactly inside `with OpenLocked`); lock identity is by package id "
        "(pkg.json is only locked under the repository lock); buffered writes: truncate empties the file on disk, __exit__ flushes then unlocks",
        "the builder's symlink handling is played by the harness (remove workspace, os.symlink) as builder._useSharedPackage/_installSharedPackage do",
        "mtimes come from a logical clock imposed by the harness; real races are sampled by the free-running stress runs only",
        "copy of the tree into the temporary directory and hashDirectory are abstracted to 'hash at destination' (o_tree); tarfile/audit content not modelled",
        "outside the property text, reported not flagged: gc(pruneUsed, pruneUnused) without quota raises TypeError (model: FType); "
        "with --used the used candidates sort before the unused ones (model and code agree)",
    ]
    pt = Patches()
    pt.install()
    try:
        if ctx.replay:
            return replay(ctx)
        rng = ctx.rng
        cases = []
        meta = []
        # ---- corpus first
        for c in load_corpus():
            res = run_impl(c, chooser=chooser_script(c["script"])) if c.get("script") else run_impl(c)
            cases.append(check_case(ctx, c, res, "corpus"))
            meta.append((c, res))
            ctx.count("corpus:" + c["_file"])
            want = c.get("expect_signature")
            sigs = [s for s, _ in res["violations"]]
            if want:
                if want in sigs:
                    ctx.violation(want, c.get("what", want), {"procs": c["procs"], "sched": res["sched"],
                                                              "store_exists": c.get("store_exists", False), "corpus": c["_file"]})
                else:
                    ctx.note("corpus witness %s no longer reproduces %s" % (c["_file"], want))
                for s, w in res["violations"]:
                    if s != want:
                        ctx.violation(s, w, {"procs": c["procs"], "sched": res["sched"], "corpus": c["_file"]})
            else:
                report_violations(ctx, c, res, do_shrink=False)
        ctx.note("phase times: proofs+corpus done at %.0fs" % ctx.elapsed())
        # ---- generated schedules
        n = ctx.n(quick=360, thorough=6000)
        t_budget = int(os.environ.get("C15_TBUDGET", ctx.n(quick=90, thorough=1200)))   # development aid: reproduce a run of a faster machine
        t0 = time.time()
        for k in range(n):
            if time.time() - t0 > t_budget:
                ctx.note("generation stopped after %d cases (time budget)" % k)
                break
            procs = gen_procs(rng)
            case = {"procs": procs, "sched": [], "store_exists": rng.random() < 0.5}
            mode = "window" if rng.random() < 0.5 else "random"
            ch = (chooser_window if mode == "window" else chooser_random)(random.Random(rng.getrandbits(48)))
            res = run_impl(case, chooser=ch)
            cases.append(check_case(ctx, case, res, mode))
            meta.append((case, res))
            if k < 3:
                ctx.sample({"procs": procs, "sched": res["sched"][:60], "results": res["results"]})
            if res["violations"]:
                known = {k["signature"] for k in ctx.known if k.get("status") == "known"}
                seen = {v["signature"] for v in ctx.violations}
                fresh = [s for s, _ in res["violations"] if s not in known and s not in seen]
                report_violations(ctx, case, res, do_shrink=bool(fresh) and len(ctx.violations) < 6)
        ctx.note("phase times: schedules generated at %.0fs" % ctx.elapsed())
        # ---- model side
        bad, log = coq.run_cases(ctx, ["BobV.C15.Model"], "run_case", "(eqb_list N.eqb)", cases, preamble=PRE,
                                 tag="lts", shard=24)
        if bad is None:
            ctx.tie_broken("C15 model evaluation failed", log)
        else:
            ctx.validated(len(cases) - len(bad))
            ctx.count("trace-steps-compared", sum(len(r["sched"]) for _, r in meta))
            for i in bad[:5]:
                case, res = meta[i]
                ctx.tie_broken("lts-correspondence", explain_mismatch(ctx, case, res))
            if bad:
                ctx.count("model-mismatch", len(bad))
        ctx.note("phase times: model evaluated at %.0fs" % ctx.elapsed())
        # ---- free running processes
        ns = ctx.n(quick=30, thorough=2200)
        ts = time.time()
        for k in range(ns):
            if time.time() - ts > int(os.environ.get("C15_TBUDGET", ctx.n(quick=20, thorough=1200))):
                ctx.note("stress stopped after %d runs (time budget)" % k)
                break
            seed = rng.getrandbits(40)
            v = stress_run(ctx, seed)
            ctx.evaluated()
            ctx.count("stress:runs")
            if v:
                # free-running processes: what is reported must be replayable. The same stress seed is run again (up to
                # three times); only a signature that shows again is a violation with a replay, anything else is written
                # into the evidence as an unreproduced observation (the scripted schedules above are the deterministic part)
                again = set()
                for _ in range(3):
                    again |= {s_ for s_, _w in stress_run(ctx, seed)}
                    ctx.count("stress:confirmation-runs")
                for sig, what in v:
                    if sig in again:
                        ctx.violation(sig, what, {"stress_seed": seed, "what": what})
                    else:
                        ctx.count("stress:unreproduced-observation:" + sig)
                        ctx.note("stress seed %d: %s (%s) did not show again in 3 more runs of the same seed" % (seed, sig, what[:200]))
    finally:
        pt.remove()


def explain_mismatch(ctx, case, res):
    """first action after which model and implementation differ, with both observations"""
    terms = ["full_case %s" % coq_case(case["procs"], res["sched"], case.get("store_exists"))]
    out, log = coq.eval_terms(ctx, ["BobV.C15.Model"], terms, preamble=PRE)
    d = {"procs": case["procs"], "sched": res["sched"], "store_exists": case.get("store_exists")}
    if not out:
        d["model"] = "evaluation failed: " + (log or "")[-500:]
        return d
    try:
        txt = out[0]
        rows = [[int(x) for x in re.findall(r"\d+", r)] for r in re.findall(r"\[([^\[\]]*)\]", txt)]
        for k, (m, o) in enumerate(zip(rows, res["obs"])):
            if m != o:
                d.update({"first_difference_after_action": k, "action": res["sched"][k], "model_obs": m, "impl_obs": o,
                          "prefix": res["sched"][:k + 1]})
                break
        else:
            d["note"] = "observations agree; refused flags differ: %r" % (res["trace"][0::2],)
    except Exception as e:
        d["model"] = "could not parse: %r" % (e,)
    return d


def replay(ctx):
    d = json.load(open(ctx.replay))
    c = d.get("case", d)
    if "stress_seed" in c:
        v = stress_run(ctx, c["stress_seed"])
        ctx.evaluated()
        for sig, what in v:
            ctx.violation(sig, what, c)
        print("free run seed %r -> %r" % (c["stress_seed"], v))
        return
    if "broken" in d:
        c = d["broken"][0]["detail"]
    res = run_impl(c, chooser=chooser_script(c["script"])) if c.get("script") else run_impl(c)
    ctx.evaluated()
    print("programs:", json.dumps(c["procs"]))
    print("schedule:", res["sched"])
    print("results :", res["results"])
    print("violations:", res["violations"])
    for e in res["errors"]:
        print("exception:", e["exc"])
    for sig, what in res["violations"]:
        ctx.violation(sig, what, c)
    bad, log = coq.run_cases(ctx, ["BobV.C15.Model"], "run_case", "(eqb_list N.eqb)",
                             [(coq_case(c["procs"], res["sched"], c.get("store_exists")), nlist(res["trace"]))], preamble=PRE, tag="rp")
    if bad is None:
        ctx.tie_broken("C15 model evaluation failed", log)
    elif bad:
        det = explain_mismatch(ctx, c, res)
        print("model differs:", json.dumps(det)[:3000])
        ctx.tie_broken("lts-correspondence", det)
    else:
        ctx.validated(1)
        print("model agrees with the implementation on every step")
