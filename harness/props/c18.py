"""C18 — package path queries return their declarative meaning.

Three-way comparison on every generated (graph, query, mode) case:
  declarative semantics  (ds_* below: a forward, node-at-a-time interpreter of the
                          XPath-like language of doc/manpages/bobpaths.rst)      -- the oracle
  implementation         (bob.pathspec.PackageSet imported from the repository as it is
                          now, driven with duck-typed packages; queries are rendered
                          to text and parsed by the real pyparsing grammar)
  Coq model              (BobV.C18.Model.query_tree / query_pkgs, vm_compute)
"""
import json, os, glob, shutil, itertools
from vlib import coq, coqlit as L, core

PROPERTY_FILES = ["C18/Properties.v"]

AXES = ["child", "descendant", "descendant-or-self", "direct-child", "direct-descendant",
        "direct-descendant-or-self", "self"]
AXIS_COQ = {"child": "AChild", "descendant": "ADesc", "descendant-or-self": "ADescSelf",
            "direct-child": "ADChild", "direct-descendant": "ADDesc",
            "direct-descendant-or-self": "ADDescSelf", "self": "ASelf"}
MODES = ["nullset", "nullglob", "nullfail"]
MODE_COQ = {"nullset": "NullSet", "nullglob": "NullGlob", "nullfail": "NullFail"}
CMP_COQ = {"<": "OLt", "<=": "OLe", ">": "OGt", ">=": "OGe", "==": "OEq", "!=": "ONe"}
NAME_POOL = ["a", "b", "c", "lib", "lib-x", "libc", "a.b", "x+1", "t:u", "app_1", "ab", "self", "child", "b-unittest",
             "a-unittest", "Z"]
VARS = ["LICENSE", "V", "EN"]
VALS = ["GPL", "MIT", "", "0", "false", " False ", "1", "true", "a", "b", "ab", "B", "TRUE"]
FUNS = {"eq": 2, "ne": 2, "not": 1, "or": None, "and": None, "if-then-else": 3}


# =================================================================== graphs
def gen_graph(rng, n):
    """raw DAG: node i -> (name, direct deps, indirect deps, env); edges go to larger numbers.
    Name clashes among the dependencies of one node are generated on purpose for
    the indirect ones (the graph builder keeps the first)."""
    pool = rng.sample(NAME_POOL, rng.randint(2, min(len(NAME_POOL), max(3, n))))
    raw = [{"name": "", "direct": [], "indirect": [], "env": {}}]
    for i in range(1, n):
        raw.append({"name": rng.choice(pool), "direct": [], "indirect": [],
                    "env": {v: rng.choice(VALS) for v in VARS if rng.random() < 0.6}})
    dens = rng.choice([0.15, 0.3, 0.5, 0.8])
    for j in range(1, n):
        ps = [i for i in range(j) if rng.random() < dens / max(1, (j - i) ** 0.5)]
        if not ps:
            ps = [rng.randrange(j)] if rng.random() < 0.7 else [0]
        for i in ps:
            raw[i]["indirect" if rng.random() < 0.3 else "direct"].append(j)
    for r in raw:
        rng.shuffle(r["direct"])
        rng.shuffle(r["indirect"])
        # direct dependency names are unique in Bob (the recipe parser rejects duplicates)
        seen = set()
        keep = []
        for c in r["direct"]:
            if raw[c]["name"] not in seen:
                seen.add(raw[c]["name"])
                keep.append(c)
        r["direct"] = keep
    return raw


def effective(raw):
    """The package graph as documented: children of a node are its direct
    dependencies, then the indirect (provided) ones whose name is still free.
    Unreachable nodes vanish, the rest is renumbered (topological order kept).
    Returns (graph, raw-index list): graph[i] = {name, kids:[(child, direct)], env}"""
    kids = []
    for r in raw:
        ks = [(c, True) for c in r["direct"]]
        names = set(raw[c]["name"] for c in r["direct"])
        for c in r["indirect"]:
            if raw[c]["name"] in names:
                continue
            names.add(raw[c]["name"])
            ks.append((c, False))
        kids.append(ks)
    reach = set()
    todo = [0]
    while todo:
        x = todo.pop()
        if x in reach:
            continue
        reach.add(x)
        todo.extend(c for c, _ in kids[x])
    order = sorted(reach)
    num = {o: i for i, o in enumerate(order)}
    g = [{"name": raw[o]["name"], "kids": [(num[c], d) for c, d in kids[o]], "env": dict(raw[o]["env"])} for o in order]
    return g, order


# =================================================================== queries
def gen_sexpr(rng, depth):
    r = rng.random()
    if depth <= 0 or r < 0.45:
        return ("lit", rng.choice(VALS + ["GPL", "x y", "<&|>", "a]b", "q"]), rng.random() < 0.5)
    if r < 0.8:
        return ("var", rng.choice(VARS + ["UNSET"]), rng.random() < 0.5)
    f = rng.choice(list(FUNS))
    ar = FUNS[f] if FUNS[f] is not None else rng.randint(0, 3)
    return ("fn", f, [gen_sexpr(rng, depth - 1) for _ in range(ar)])


def gen_pred(rng, depth, names):
    r = rng.random()
    if depth <= 0 or r < 0.4:
        return ("path", rng.random() < 0.2, gen_path(rng, depth - 1, names, rng.choice([1, 1, 2, 3]), inner=True))
    if r < 0.52:
        return ("not", gen_pred(rng, depth - 1, names))
    if r < 0.64:
        return ("and", gen_pred(rng, depth - 1, names), gen_pred(rng, depth - 1, names))
    if r < 0.76:
        return ("or", gen_pred(rng, depth - 1, names), gen_pred(rng, depth - 1, names))
    if r < 0.9:
        return ("cmp", rng.choice(list(CMP_COQ)), gen_sexpr(rng, 1), gen_sexpr(rng, 1))
    return ("str", gen_sexpr(rng, 2))


def gen_test(rng, names):
    r = rng.random()
    if r < 0.22:
        return "*"
    if r < 0.45:
        nm = rng.choice(names)
        k = rng.random()
        if k < 0.3 and nm:
            return nm[:rng.randint(0, len(nm))] + "*"
        if k < 0.55 and nm:
            return "*" + nm[rng.randint(0, len(nm)):]
        if k < 0.75 and len(nm) > 1:
            i = rng.randint(0, len(nm) - 1)
            if i % 3 == 2:
                # prefix and suffix overlap in the name they were cut from: nm itself must NOT match (seed C18-3)
                return nm[:i + 1] + "*" + nm[i:]
            return nm[:i] + "*" + nm[i + 1:]
        if k < 0.9:
            return "*" + rng.choice("abcx-.") + "*"
        return "**"
    if r < 0.93:
        return rng.choice(names)
    return rng.choice(["zz", "nope", "a", "lib"])


def gen_path(rng, depth, names, nsteps, inner=False):
    """list of steps (dsl, axis, test, pred); dsl = preceded by '//'"""
    steps = []
    for i in range(nsteps):
        r = rng.random()
        if r < 0.08:
            st = (False, "self", "*", None)         # '.'
        else:
            ax = rng.choice(["child"] * 6 + ["descendant", "descendant", "descendant-or-self", "direct-child",
                                             "direct-descendant", "direct-descendant-or-self", "self"])
            pred = gen_pred(rng, depth - 1, names) if depth > 0 and rng.random() < 0.3 else None
            st = (False, ax, gen_test(rng, names), pred)
        dsl = rng.random() < 0.3
        steps.append((dsl,) + st[1:])
    return steps


def glob_of(rng, nm):
    k = rng.random()
    if k < 0.35:
        return nm[:rng.randint(0, len(nm))] + "*"
    if k < 0.65:
        return "*" + nm[rng.randint(0, len(nm)):]
    if k < 0.9 and len(nm) > 1:
        i = rng.randint(0, len(nm) - 1)
        if i % 3 != 0:
            return nm[:i + 1] + "*" + nm[i:]        # overlapping prefix/suffix: nm itself does not match
        return nm[:i] + "*" + nm[i + 1:]
    return "*" + nm[len(nm) // 2:len(nm) // 2 + 1] + "*"


def gen_pred_guided(rng, g, m, depth, names):
    """a predicate that is likely (not certainly) true at node m"""
    r = rng.random()
    if depth <= 0:
        r = r * 0.7          # leaves only: the nesting depth is bounded by 'depth'
    if r < 0.4:
        return ("path", False, gen_guided(rng, g, names, depth - 1, rng.choice([1, 1, 2]), {m}))
    if r < 0.5:
        return ("path", True, gen_guided(rng, g, names, depth - 1, rng.choice([1, 2]), {0}))
    if r < 0.7 and g[m]["env"]:
        v = rng.choice(sorted(g[m]["env"]))
        val = g[m]["env"][v]
        op = rng.choice(["==", "==", "<=", ">=", "!=", "<"])
        return ("cmp", op, ("var", v, rng.random() < 0.5), ("lit", val if op != "<" else val + "z", rng.random() < 0.5))
    if r < 0.8:
        return ("and", gen_pred_guided(rng, g, m, depth - 1, names), gen_pred_guided(rng, g, m, depth - 1, names))
    if r < 0.9:
        return ("or", gen_pred(rng, max(0, depth - 1), names), gen_pred_guided(rng, g, m, depth - 1, names))
    return gen_pred(rng, max(0, depth), names)


def gen_guided(rng, g, names, depth, nsteps, start):
    """walk the graph while generating, so that most queries select something"""
    ctxs = set(start)
    steps = []
    for i in range(nsteps):
        dsl = rng.random() < 0.25
        cur = ctxs
        if dsl and cur:
            cur = set().union(*[ds_axis(g, "descendant-or-self", n) for n in cur])
        ax = rng.choice(["child"] * 6 + ["descendant", "descendant", "descendant-or-self", "direct-child",
                                         "direct-descendant", "direct-descendant-or-self", "self"])
        cand = sorted(set().union(*[ds_axis(g, ax, n) for n in cur])) if cur else []
        pred = None
        if cand and rng.random() < 0.9:
            m = rng.choice(cand)
            nm = g[m]["name"]
            k = rng.random()
            test = "*" if (k < 0.2 or not nm) else (nm if k < 0.7 else glob_of(rng, nm))
            if depth > 0 and rng.random() < 0.35:
                pred = gen_pred_guided(rng, g, m, depth, names)
        else:
            test = gen_test(rng, names)
            if depth > 0 and rng.random() < 0.3:
                pred = gen_pred(rng, depth - 1, names)
        st = (dsl, ax, test, pred)
        if rng.random() < 0.06:
            st = (dsl, "self", "*", None)
        steps.append(st)
        ctxs = ds_step(g, fix_leads([st], "abs")[0], ctxs)
    return steps


def show_sexpr(e, rng):
    if e[0] == "lit":
        q = '"' if e[2] else "'"
        return q + e[1] + q
    if e[0] == "var":
        return '"${%s}"' % e[1] if e[2] else '"$%s"' % e[1]
    sep = ", " if rng.random() < 0.5 else ","
    return e[1] + "(" + sep.join(show_sexpr(a, rng) for a in e[2]) + ")"


PREC = {"or": 1, "and": 2, "cmp": 5, "not": 9, "path": 10, "str": 10}


def show_pred(p, rng):
    k = p[0]
    sp = " " if rng.random() < 0.7 else ""

    def sub(q, minprec, right=False):
        s = show_pred(q, rng)
        pq = PREC[q[0]]
        if pq < minprec or (right and pq == minprec) or rng.random() < 0.1:
            return "(" + s + ")"
        return s
    if k == "path":
        return show_path(p[2], rng, "abs" if p[1] else "rel")
    if k == "str":
        return show_sexpr(p[1], rng)
    if k == "cmp":
        return show_sexpr(p[2], rng) + sp + p[1] + sp + show_sexpr(p[3], rng)
    if k == "not":
        # '!' binds tighter than the comparison operators
        return "!" + (" " if rng.random() < 0.2 else "") + sub(p[1], 9)
    op = "&&" if k == "and" else "||"
    return sub(p[1], PREC[k]) + sp + op + sp + sub(p[2], PREC[k], right=True)


def show_step(st, rng):
    dsl, ax, test, pred = st
    if ax == "self" and test == "*" and pred is None and rng.random() < 0.8:
        return "."
    s = test if (ax == "child" and rng.random() < 0.8) else ax + "@" + test
    if pred is not None:
        sp = " " if rng.random() < 0.3 else ""
        s += "[" + sp + show_pred(pred, rng) + sp + "]"
    return s


def show_path(steps, rng, lead):
    """lead: 'rel' (nothing or forced '//' impossible), 'abs' ('/' or '//')"""
    out = ""
    for i, st in enumerate(steps):
        if i == 0:
            if lead == "abs":
                out += "//" if st[0] else "/"
            # relative: a leading '//' does not exist; the generator cleared the flag
        else:
            out += "//" if st[0] else "/"
        out += show_step(st, rng)
    return out


def fix_leads(steps, lead):
    """a relative path cannot start with '//': clear the flag of its first step (also in nested paths)"""
    def fp(p):
        if p is None:
            return None
        k = p[0]
        if k == "path":
            return ("path", p[1], fix_leads(p[2], "abs" if p[1] else "rel"))
        if k == "not":
            return ("not", fp(p[1]))
        if k in ("and", "or"):
            return (k, fp(p[1]), fp(p[2]))
        return p
    out = []
    for i, (dsl, ax, t, pr) in enumerate(steps):
        if i == 0 and lead == "rel":
            dsl = False
        out.append((dsl, ax, t, fp(pr)))
    return out


# =================================================================== declarative semantics (oracle)
def ds_is_true(s):
    return s.strip().lower() not in ("", "0", "false")


def ds_sval(g, e, n):
    if e[0] == "lit":
        return e[1]
    if e[0] == "var":
        return g[n]["env"].get(e[1], "")
    a = [ds_sval(g, x, n) for x in e[2]]
    f = e[1]
    tf = lambda b: "true" if b else "false"
    if f == "eq":
        return tf(a[0] == a[1])
    if f == "ne":
        return tf(a[0] != a[1])
    if f == "not":
        return tf(not ds_is_true(a[0]))
    if f == "or":
        return tf(any(ds_is_true(x) for x in a))
    if f == "and":
        return tf(all(ds_is_true(x) for x in a))
    if f == "if-then-else":
        return a[1] if ds_is_true(a[0]) else a[2]
    raise AssertionError(f)


def ds_glob(pat, s):
    """'*' matches zero or more characters, everything else itself"""
    if not pat:
        return not s
    if pat[0] == "*":
        return any(ds_glob(pat[1:], s[i:]) for i in range(len(s) + 1))
    return bool(s) and s[0] == pat[0] and ds_glob(pat[1:], s[1:])


def ds_desc(g, n, direct_only):
    out = set()
    todo = [n]
    while todo:
        x = todo.pop()
        for c, d in g[x]["kids"]:
            if (d or not direct_only) and c not in out:
                out.add(c)
                todo.append(c)
    return out


def ds_axis(g, ax, n):
    if ax == "self":
        return {n}
    if ax == "child":
        return {c for c, d in g[n]["kids"]}
    if ax == "direct-child":
        return {c for c, d in g[n]["kids"] if d}
    direct = ax.startswith("direct-")
    r = ds_desc(g, n, direct)
    if ax.endswith("or-self"):
        r = r | {n}
    return r


def ds_holds(g, p, n):
    k = p[0]
    if k == "path":
        return bool(ds_path(g, p[2], {0} if p[1] else {n}))
    if k == "not":
        return not ds_holds(g, p[1], n)
    if k == "and":
        return ds_holds(g, p[1], n) and ds_holds(g, p[2], n)
    if k == "or":
        return ds_holds(g, p[1], n) or ds_holds(g, p[2], n)
    if k == "str":
        return ds_is_true(ds_sval(g, p[1], n))
    l, r = ds_sval(g, p[2], n), ds_sval(g, p[3], n)
    return {"<": l < r, "<=": l <= r, ">": l > r, ">=": l >= r, "==": l == r, "!=": l != r}[p[1]]


def ds_step(g, st, ctxs):
    dsl, ax, test, pred = st
    if dsl:
        ctxs = set().union(*[ds_axis(g, "descendant-or-self", n) for n in ctxs]) if ctxs else set()
    out = set()
    for n in ctxs:
        for m in ds_axis(g, ax, n):
            nm = g[m]["name"]
            if not (test == "*" or (ds_glob(test, nm) if "*" in test else nm == test)):
                continue
            if pred is not None and not ds_holds(g, pred, m):
                continue
            out.add(m)
    return out


def ds_path(g, steps, ctxs):
    for st in steps:
        ctxs = ds_step(g, st, ctxs)
    return ctxs


def ds_query(g, steps, mode):
    """("ok", set) | ("notfound",) | ("nomatch",)  -- bob(1) --query: the policy is applied on the
    first occasion when an empty package set remained; a query is 'complex' when it used a wildcard,
    a predicate or a multi-hop axis up to that point."""
    ctxs = {0}
    complex_ = False
    for st in steps:
        dsl, ax, test, pred = st
        ctxs = ds_step(g, st, ctxs)
        trivial_self = ax == "self" and test == "*" and pred is None      # '.' is the identity, no wildcard use
        complex_ = complex_ or dsl or ("*" in test and not trivial_self) or pred is not None or ("descendant" in ax)
        if not ctxs and mode != "nullset":
            if not complex_:
                return ("notfound",)
            if mode == "nullfail":
                return ("nomatch",)
    return ("ok", ctxs)


def ds_witness_paths(g, steps, cap=400):
    """all root paths (as node tuples below the root) that decompose along the query steps:
    every step is realised by the edges of the path itself.  None when more than `cap`."""
    out = set()
    count = [0]

    class TooMany(Exception):
        pass

    def walks(n, direct_only, min_edges, max_edges):
        """(path suffix, end) of walks from n with min..max edges (max None = unbounded)"""
        todo = [((), n)]
        while todo:
            suf, x = todo.pop()
            if len(suf) >= min_edges:
                yield suf, x
            if max_edges is not None and len(suf) >= max_edges:
                continue
            for c, d in g[x]["kids"]:
                if d or not direct_only:
                    count[0] += 1
                    if count[0] > 20000:
                        raise TooMany()
                    todo.append((suf + (c,), c))

    def go(n, prefix, i):
        if i == len(steps):
            out.add(prefix)
            if len(out) > cap:
                raise TooMany()
            return
        dsl, ax, test, pred = steps[i]
        starts = walks(n, False, 0, None) if dsl else [((), n)]
        for s1, x in starts:
            direct = ax.startswith("direct-")
            if ax == "self":
                rng_ = (0, 0)
            elif ax in ("child", "direct-child"):
                rng_ = (1, 1)
            elif ax.endswith("or-self"):
                rng_ = (0, None)
            else:
                rng_ = (1, None)
            for s2, y in walks(x, direct, rng_[0], rng_[1]):
                nm = g[y]["name"]
                if not (test == "*" or (ds_glob(test, nm) if "*" in test else nm == test)):
                    continue
                if pred is not None and not ds_holds(g, pred, y):
                    continue
                go(y, prefix + s1 + s2, i + 1)
    try:
        go(0, (), 0)
    except TooMany:
        return None
    return out


def witness_check(ctx, g, steps, text, res, case, defer=None, predicted=True):
    """strict reading of 'each result is reported with a real path that passes through the intermediate
    steps of the query' (known finding F30: the implementation restricts paths by the node set 'valid'):
      - a reported stack must decompose along the query steps (be a witness path),
      - with queryAll every witness path must be reported.
    Only called when the result sets are right."""
    a, b = res.get(("tree", False)), res.get(("tree", True))
    if not (a and b and a[0] == "ok" and b[0] == "ok" and b[1]):
        return
    W = ds_witness_paths(g, steps)
    if W is None:
        ctx.count("witness-paths-not-enumerated")
        return
    rep_all = set(tuple(path_nodes(g, st)) for st, _ in b[1])
    rep_one = set(tuple(path_nodes(g, st)) for st, _ in a[1])
    ctx.count("witness-check:cases")
    kinds = []
    if not rep_one <= W:
        kinds.append("default-mode-path-is-no-witness")
    if not W <= rep_all:
        kinds.append("queryAll-misses-a-witness-path")
    if not rep_all <= W:
        kinds.append("queryAll-lists-a-non-witness-path")
    for k in kinds:
        ctx.count("witness-check:" + k)
    if kinds:
        def show(ps):
            return sorted("/".join(g[x]["name"] for x in p) or "/" for p in ps)
        what = "query %r: %s; reported %r, with queryAll %r, witness paths %r" % (
            text, ", ".join(kinds), show(rep_one), show(rep_all), show(W))
        rep = dict(case, impl={"%s/%s" % k: v for k, v in res.items()}, kinds=kinds)
        if defer is not None:
            # decided after the model was evaluated: the known finding F30 is exactly the node-set
            # approximation of the pinned algorithm, which the Coq model predicts path by path
            defer.append((what, rep))
            return
        report_witness(ctx, what, rep, predicted)


def report_witness(ctx, what, rep, predicted):
    """a reported path that is no witness path: known finding F30 when it is the output the model of the pinned
    node-set algorithm predicts for this very input; anything else is a different violation of the same clause"""
    if predicted:
        n_rep = ctx.hist.get("witness-check:reported", 0)
        if n_rep < 6:            # a handful of concrete inputs is enough for one class
            ctx.count("witness-check:reported")
            ctx.violation("reported-path-is-no-witness", what, rep)
    else:
        ctx.count("witness-check:not-predicted-by-the-node-set-model")
        if ctx.hist.get("witness-check:not-predicted-by-the-node-set-model", 0) <= 4:
            ctx.violation("reported-path-is-no-witness-and-not-the-node-set-approximation",
                          what + " (the model of the pinned node-set algorithm reports other paths for this input)", rep)


def real_path(g, stack):
    """follow child names from the root; None if some name does not exist"""
    n = 0
    for nm in stack:
        nxt = [c for c, d in g[n]["kids"] if g[c]["name"] == nm]
        if len(nxt) != 1:
            return None
        n = nxt[0]
    return n


# =================================================================== implementation side
class _Step:
    def __init__(self, pkg):
        self._p = pkg

    def getPackage(self):
        return self._p

    def getEnv(self):
        return dict(self._p._raw[self._p._i]["env"])

    def getTools(self):
        return {}


class _Pkg:
    """duck-typed bob.input.Package: re-created on the fly for every path, like the real ones"""
    def __init__(self, raw, ids, i, stack):
        self._raw = raw
        self._ids = ids
        self._i = i
        self._stack = stack

    def getName(self):
        return self._raw[self._i]["name"]

    def _getId(self):
        return self._ids[self._i]

    def getStack(self):
        return list(self._stack)

    def _deps(self, key):
        return [_Step(_Pkg(self._raw, self._ids, c, self._stack + [self._raw[c]["name"]])) for c in self._raw[self._i][key]]

    def getDirectDepSteps(self):
        return self._deps("direct")

    def getIndirectDepSteps(self):
        return self._deps("indirect")

    def getPackageStep(self):
        return _Step(self)

    def getMetaEnv(self):
        return {}

    def getRecipe(self):
        return None

    def _getSandboxRaw(self):
        return None

    def getPluginStates(self):
        return {}


class Impl:
    """one generated graph behind the real PackageSet (its sqlite cache lives in a scratch directory)"""
    counter = 0

    def __init__(self, raw, order, ids, aliases=None):
        self.raw, self.order, self.ids = raw, order, ids
        self.aliases = aliases or {}
        self.num = {ids[o]: i for i, o in enumerate(order)}
        Impl.counter += 1
        self.key = ("k%d" % Impl.counter).encode()
        self.sets = {}

    def _ps(self, mode):
        from bob.pathspec import PackageSet
        from bob.stringparser import DEFAULT_STRING_FUNS
        if mode not in self.sets:
            self.sets[mode] = PackageSet(self.key, self.aliases, DEFAULT_STRING_FUNS,
                                         lambda: _Pkg(self.raw, self.ids, 0, [""]), mode)
        return self.sets[mode]

    def close(self):
        for ps in self.sets.values():
            ps.close()
        self.sets = {}

    def query(self, text, mode, qa, kind):
        """-> ("ok", [(stack names, node)])  | ("notfound",) | ("nomatch",) | ("syntax", msg) | ("internal", type)"""
        from bob.errors import BobError
        ps = self._ps(mode)
        try:
            if kind == "tree":
                res = [(list(st), self.num[n.key()]) for st, n in ps.queryTreePath(text, qa)]
            else:
                res = []
                for p in ps.queryPackagePath(text, qa):
                    st = p.getStack()
                    res.append((st[1:], self.num[p._getId()]))
            return ("ok", res)
        except BobError as e:
            s = e.slogan
            if s.startswith("Package '") and s.endswith("not found"):
                return ("notfound",)
            if s.startswith("Query '") and s.endswith("matched no packages"):
                return ("nomatch",)
            if s.startswith("Invalid syntax") or s.startswith("Bad syntax"):
                return ("syntax", s)
            return ("internal", "BobError:" + s)
        except RecursionError:
            # Python recursion limit inside pyparsing (about 6 nested parentheses / 5 nested predicates):
            # a resource limit of the parser, not a question of the query language
            return ("resource", "RecursionError")
        except Exception as e:
            return ("internal", type(e).__name__ + ":" + str(e)[:100])


class Scratch:
    """the implementation writes .bob-tree.sqlite3 into the current directory"""
    def __enter__(self):
        self.old = os.getcwd()
        self.dir = core.scratch_dir("c18")
        os.chdir(self.dir)
        return self

    def __exit__(self, *a):
        os.chdir(self.old)
        shutil.rmtree(self.dir, ignore_errors=True)


# =================================================================== Coq literals
def coq_graph(g):
    recs = []
    for r in g:
        kids = L.lst([L.pair(L.nat(c), L.B(d)) for c, d in r["kids"]]) if r["kids"] else "(@nil (nat * bool))"
        env = L.lst([L.pair(L.s(k), L.s(v)) for k, v in r["env"].items()]) if r["env"] else "(@nil (str * str))"
        recs.append("{| n_name := %s; n_kids := %s; n_env := %s |}" % (L.s(r["name"]), kids, env))
    return L.lst(recs)


def coq_sexpr(e):
    if e[0] == "lit":
        return "(SLit %s)" % L.s(e[1])
    if e[0] == "var":
        return "(SVar %s)" % L.s(e[1])
    return "(SFn %s %s)" % (L.s(e[1]), L.lst([coq_sexpr(a) for a in e[2]]) if e[2] else "(@nil sexpr)")


def coq_pred(p):
    if p is None:
        return "PNone"
    k = p[0]
    if k == "path":
        return "(PPath %s %s)" % (L.B(p[1]), coq_path(p[2]))
    if k == "not":
        return "(PNot %s)" % coq_pred(p[1])
    if k == "and":
        return "(PAnd %s %s)" % (coq_pred(p[1]), coq_pred(p[2]))
    if k == "or":
        return "(POr %s %s)" % (coq_pred(p[1]), coq_pred(p[2]))
    if k == "str":
        return "(PStr %s)" % coq_sexpr(p[1])
    return "(PCmp %s %s %s)" % (CMP_COQ[p[1]], coq_sexpr(p[2]), coq_sexpr(p[3]))


def coq_path(steps):
    out = "PNil"
    for dsl, ax, t, pr in reversed(steps):
        out = "(PCons %s %s %s %s %s)" % (L.B(dsl), AXIS_COQ[ax], L.s(t), coq_pred(pr), out)
    return out


def coq_qres(g, r):
    if r[0] == "ok":
        items = []
        for stack, n in r[1]:
            nodes = path_nodes(g, stack)
            items.append(L.pair(L.lst([L.nat(x) for x in nodes]) if nodes else "(@nil nat)", L.nat(n)))
        return "(QOk %s)" % (L.lst(items) if items else "(@nil (list nat * nat))")
    return {"notfound": "QNotFound", "nomatch": "QNoMatch"}[r[0]]


def path_nodes(g, stack):
    """names -> node numbers (names are unique among the children of a node); -1 where the name does not exist"""
    out = []
    n = 0
    for nm in stack:
        nxt = [c for c, d in g[n]["kids"] if g[c]["name"] == nm] if n >= 0 else []
        n = nxt[0] if len(nxt) == 1 else 4999
        out.append(n)
    return out


PRE = """
Definition pair_eqb (a b : list nat * nat) : bool := eqb_list Nat.eqb (fst a) (fst b) && Nat.eqb (snd a) (snd b).
Definition qres_eqb (a b : qres) : bool :=
  match a, b with
  | QOk x, QOk y => eqb_list pair_eqb x y
  | QNotFound, QNotFound => true
  | QNoMatch, QNoMatch => true
  | _, _ => false
  end.
Definition run4 (i : graph * emode * path) : qres * qres * qres * qres :=
  let '(g, m, q) := i in
  (query_tree g (sval_impl g) m q false, query_tree g (sval_impl g) m q true,
   query_pkgs g (sval_impl g) m q false, query_pkgs g (sval_impl g) m q true).
Definition res4_eqb (a b : qres * qres * qres * qres) : bool :=
  let '(a1, a2, a3, a4) := a in let '(b1, b2, b3, b4) := b in
  qres_eqb a1 b1 && qres_eqb a2 b2 && qres_eqb a3 b3 && qres_eqb a4 b4.
"""


# =================================================================== property oracle on the implementation
def check_case(ctx, g, steps, text, mode, res, case):
    """res: dict (kind, qa) -> implementation result.  Reports violations; returns True when clean."""
    want = ds_query(g, steps, mode)
    ok = True

    def viol(sig, what):
        nonlocal ok
        ok = False
        ctx.violation(sig, what, dict(case, impl={"%s/%s" % k: v for k, v in res.items()}, declarative=repr(want)))

    if any(r[0] == "resource" for r in res.values()):
        if hasattr(ctx, "count"):
            ctx.count("resource-limit:RecursionError")
        return True
    for (kind, qa), r in res.items():
        if r[0] == "internal":
            viol("internal-exception", "query %r raised %s" % (text, r[1]))
            return False
        if r[0] == "syntax":
            viol("well-formed-query-rejected", "query %r rejected: %s" % (text, r[1]))
            return False
        if r[0] != want[0]:
            viol("empty-mode:%s:%s-instead-of-%s" % (mode, r[0], want[0]),
                 "query %r in mode %s: implementation %s, prescribed %s" % (text, mode, r[0], want[0]))
            continue
        if r[0] != "ok":
            continue
        D = set(want[1])
        if kind == "pkgs":
            D = D - {0}          # the virtual root is no package
        got = [n for _, n in r[1]]
        gs = set(got)
        if gs != D:
            lost, extra = sorted(D - gs), sorted(gs - D)
            if lost and not extra and below_other_match(g, steps, lost, set(want[1])):
                sig = "descendant-result-unreachable-through-valid"
            else:
                sig = "result-set-differs:" + ("lost" if lost else "") + ("extra" if extra else "")
            viol(sig, "query %r (%s, queryAll=%s): packages lost %s, extra %s" % (
                text, kind, qa, [g[x]["name"] for x in lost], [g[x]["name"] for x in extra]))
            continue
        if not qa and len(got) != len(gs):
            viol("result-reported-twice", "query %r (%s): a package is reported more than once without queryAll" % (text, kind))
        stacks = set()
        for st, n in r[1]:
            if real_path(g, st) != n:
                viol("reported-path-not-real", "query %r: reported path %r does not lead to the reported package" % (text, "/".join(st)))
            stacks.add(tuple(st))
        if len(stacks) != len(r[1]):
            viol("path-reported-twice", "query %r (%s, queryAll=%s): identical path reported twice" % (text, kind, qa))
    # queryAll only adds alternate paths
    for kind in ("tree", "pkgs"):
        a, b = res.get((kind, False)), res.get((kind, True))
        if a and b and a[0] == "ok" and b[0] == "ok":
            if not set(tuple(s) for s, _ in a[1]) <= set(tuple(s) for s, _ in b[1]):
                viol("first-path-not-among-alternates", "query %r (%s): the path reported without queryAll is missing with queryAll" % (text, kind))
    a, b = res.get(("tree", True)), res.get(("pkgs", True))
    if a and b and a[0] == "ok" and b[0] == "ok":
        if [x for x in a[1] if x[1] != 0] != b[1]:
            viol("tree-and-package-results-differ", "query %r: queryTreePath and queryPackagePath disagree" % text)
    return ok


def below_other_match(g, steps, lost, D):
    """class of the finding fixed by 'fix: descendant queries find packages below other matches':
    the last step is a multi-hop step and every lost package is reachable from the step's context
    packages only through another package selected by the same step (plus at least one package in
    between that is not selected)."""
    if not steps:
        return False
    dsl, ax, test, pred = steps[-1]
    if not (dsl or "descendant" in ax):
        return False
    ctxs = ds_path(g, steps[:-1], {0})
    direct = ax.startswith("direct-") and not dsl
    for l in lost:
        # search from the contexts without passing through other selected packages
        seen = set()
        todo = [c for c in ctxs]
        free = False
        while todo:
            x = todo.pop()
            if x in seen:
                continue
            seen.add(x)
            if x == l:
                free = True
                break
            if x in D and x not in ctxs:
                continue
            for c, d in g[x]["kids"]:
                if d or not direct:
                    todo.append(c)
        if free:
            return False
    return True


def shrink(g_raw, steps, fails):
    """greedy: drop steps, predicates, edges, nodes' names stay"""
    changed = True
    while changed:
        changed = False
        for i in range(len(steps)):
            for cand in ([steps[:i] + steps[i + 1:]] if len(steps) > 1 else []) + \
                        ([steps[:i] + [steps[i][:3] + (None,)] + steps[i + 1:]] if steps[i][3] is not None else []):
                cand = fix_leads(cand, "abs" if cand[0][0] else "rel")
                if fails(g_raw, cand):
                    steps = cand
                    changed = True
                    break
            if changed:
                break
        if changed:
            continue
        for i, r in enumerate(g_raw):
            for key in ("direct", "indirect"):
                for j in range(len(r[key])):
                    g2 = [dict(x, direct=list(x["direct"]), indirect=list(x["indirect"])) for x in g_raw]
                    del g2[i][key][j]
                    if fails(g2, steps):
                        g_raw = g2
                        changed = True
                        break
                if changed:
                    break
            if changed:
                break
    return g_raw, steps


def make_ids(rng, n):
    ids = [b"%08x" % rng.getrandbits(32) for _ in range(n)]
    assert len(set(ids)) == n
    return ids


def run_impl(raw, order, ids, text, mode, aliases=None):
    """every query of a case goes through the same PackageSet: the first one builds the sqlite graph,
    the following ones reuse it"""
    im = Impl(raw, order, ids, aliases)
    try:
        return {(kind, qa): im.query(text, mode, qa, kind) for kind in ("tree", "pkgs") for qa in (False, True)}
    finally:
        im.close()


def one_query(raw, order, ids, aliases, text, mode, qa, kind="tree"):
    im = Impl(raw, order, ids, aliases)
    try:
        return im.query(text, mode, qa, kind)
    finally:
        im.close()


# =================================================================== main
def run(ctx):
    rng = ctx.rng
    ctx.rule = ("random DAGs (3-16 nodes, thorough up to 40; shared nodes, direct and indirect edges, duplicate names under different "
                "parents, name clashes among indirect dependencies) behind duck-typed packages; queries generated "
                "from the path grammar (all 7 axes, '.', '//', globs, nested predicates with relative/absolute "
                "paths, ! && ||, string comparisons, string functions, aliases), rendered with random spacing and "
                "parentheses and parsed by the real grammar; a case is non-trivial when its query has >= 2 steps or a "
                "predicate or a multi-hop axis; distinct by (graph, query text, mode)")
    ctx.assumptions += [
        "pyparsing grammar is not modelled: query ASTs are rendered to text and parsed by the real grammar",
        "real recipes: a few generated recipe projects (unique package names, provideDeps, metaEnvironment) are "
        "queried through the bob ls command line and compared with the declarative semantics over the graph that "
        "bob ls -r -p [-a] lists; there a package is identified by its name (no environment variants)",
        "sqlite persistence of the graph is exercised (real .bob-tree.sqlite3 in a scratch directory) but not modelled; "
        "the model derives the parent relation from the child lists",
        "string predicates: modelled are single/double quoted literals without \\ \" ' $, \"${VAR}\"/\"$VAR\", the "
        "functions eq ne not or and if-then-else, ASCII values; excluded: other string functions (match, subst, ...), "
        "escapes and nested substitutions inside double quotes (that language is property C17), non-ASCII case folding",
        "queries nested deeper than the Python recursion limit allows inside pyparsing (observed: 6 nested parentheses "
        "or 5 nested predicates raise RecursionError, also through 'bob ls') are outside the generated space; such an "
        "outcome is counted as resource-limit, not as a violation",
        "package names are drawn from the nodeTest alphabet (letters digits _ . : + -) and do not start with '.'",
        "empty-mode oracle reads 'complex query' as: a wildcard, predicate, '//' or (direct-)descendant axis occurred "
        "up to and including the first step with an empty result (bob(1) --query)",
        "result paths: the oracle demands a real path to every declaratively selected package, exactly one without "
        "queryAll, and (strict reading, graphs up to 10 nodes, witness paths enumerated) that every reported path "
        "decomposes along the query steps and that queryAll reports every such path; the strict part is known "
        "finding F30 (signature reported-path-is-no-witness): the implementation restricts paths by a node set",
    ]
    ctx.note("proved (Coq, unbounded, for every topologically numbered finite graph, every query AST, every string "
             "valuation): backward evaluation = declarative meaning; forward node set = declarative set; constructor "
             "rewriting keeps the meaning; (direct-)descendant/ancestor worklist loops = transitive closure; every "
             "reported stack is a real path to a selected package inside 'valid'; every selected package is reported "
             "(queryAll and default), once without queryAll; errors only for empty selections; empty-mode table; glob. "
             "Only exercised by the correspondence (not proved): that the model is the code (pathspec.py vs Model.v), "
             "the pyparsing grammar, alias substitution on the query text, sqlite persistence, __findResultPackages "
             "(model frp, compared with the implementation and with queryTreePath), string functions of predicates")
    try:
        from props import consts_c18
        k = consts_c18.read()
        if set(k["keywords"]) != set(AXES):
            ctx.tie_broken("axis-keywords", {"grammar": k["keywords"], "harness": AXES})
    except Exception as e:
        ctx.tie_broken("constants-c18", repr(e))
    if ctx.replay:
        return replay(ctx)
    n_graphs = ctx.n(70, 520)
    per_graph = ctx.n(12, 24)
    cases = []
    meta = []
    graphs_pre = []
    deferred = []                 # strict witness-path failures, classified once the model has been evaluated
    with Scratch():
        todo = [("corpus", c) for c in load_corpus()] + [("gen", None)] * n_graphs
        gi = 0
        t_cap = ctx.n(100, 900)       # seconds: under heavy machine load fewer graphs are generated
        truncated = 0
        for kind0, c in todo:
            if kind0 == "gen" and ctx.elapsed() > t_cap and len(cases) >= ctx.n(300, 3000):
                truncated += 1
                continue
            if kind0 == "corpus":
                raw = c["raw"]
                qlist = [(c["steps"], c.get("mode", "nullglob"))]
            else:
                raw = gen_graph(rng, rng.choice([3, 4, 5, 6, 7, 8, 9, 10, 12, 14, 16] + ctx.n([], [20, 24, 30, 40])))
                qlist = None
            g, order = effective(raw)
            ids = make_ids(rng, len(raw))
            names = sorted(set(r["name"] for r in g[1:])) or ["a"]
            gname = "g%d" % gi
            gi += 1
            graphs_pre.append("Definition %s : graph := %s.\n" % (gname, coq_graph(g)))
            ctx.count("graph:nodes=%d" % (len(g) // 4 * 4))
            if qlist is None:
                qlist = []
                for _ in range(per_graph):
                    nst = rng.choice([1, 1, 2, 2, 3, 3, 4, 5])
                    if rng.random() < 0.75:
                        steps = gen_guided(rng, g, names, rng.choice([0, 1, 1, 2, 2, 3]), nst, {0})
                    else:
                        steps = gen_path(rng, rng.choice([0, 1, 1, 2, 2, 3]), names, nst)
                    qlist.append((steps, rng.choice(MODES)))
            for steps, mode in qlist:
                steps = [tuple(s[:3]) + (to_tuple(s[3]),) for s in steps]
                lead = "abs" if (kind0 == "corpus" and steps[0][0]) or (kind0 == "gen" and rng.random() < 0.4) else "rel"
                steps = fix_leads(steps, lead)
                text = show_path(steps, rng, lead)
                if rng.random() < 0.1:
                    text += "/" * rng.randint(1, 2)
                res = run_impl(raw, order, ids, text, mode)
                ctx.evaluated(4)
                nontriv = len(steps) >= 2 or any(s[3] is not None or s[0] or "desc" in s[1] for s in steps)
                if nontriv:
                    ctx.nontrivial((gname, text, mode))
                r0 = res[("tree", False)]
                ctx.count("result:" + r0[0] + (":empty" if r0[0] == "ok" and not r0[1] else ""))
                for s in steps:
                    ctx.count("axis:" + s[1])
                ctx.count("steps=%d" % len(steps))
                if any(s[3] is not None for s in steps):
                    ctx.count("with-predicate")
                case = {"raw": raw, "steps": steps, "mode": mode, "text": text}
                clean = check_case(ctx, g, steps, text, mode, res, case)
                wdef = []
                if clean and (len(g) <= 10 or kind0 == "corpus"):
                    witness_check(ctx, g, steps, text, res, case, defer=wdef)
                if not clean and kind0 == "gen":
                    minimise(ctx, raw, steps, mode)
                if all(r[0] in ("ok", "notfound", "nomatch") for r in res.values()):
                    exp = "(%s, %s, %s, %s)" % tuple(coq_qres(g, res[k]) for k in
                                                     [("tree", False), ("tree", True), ("pkgs", False), ("pkgs", True)])
                    cases.append(("(%s, %s, %s)" % (gname, MODE_COQ[mode], coq_path(steps)), exp))
                    meta.append({"raw": raw, "steps": steps, "mode": mode, "text": text,
                                 "impl": {"%s/%s" % k: v for k, v in res.items()}})
                    deferred += [(len(cases) - 1, w, r) for w, r in wdef]
                else:
                    deferred += [(None, w, r) for w, r in wdef]
                if len(ctx.cov["samples"]) < 5 and nontriv:
                    ctx.sample({"names": [r["name"] for r in g], "kids": [r["kids"] for r in g], "query": text,
                                "mode": mode, "impl": r0})
        t_impl = ctx.elapsed()
        if truncated:
            ctx.note("time cap reached: %d of %d generated graphs skipped" % (truncated, n_graphs))
        aliases_and_syntax(ctx, rng)
    real_projects(ctx, rng, ctx.n(1, 20), ctx.n(4, 8))
    t_coq = ctx.elapsed()
    bad, log = coq.run_cases(ctx, ["BobV.C18.Model"], "run4", "res4_eqb", cases, preamble=PRE + "".join(graphs_pre),
                             tag="q", shard=250)
    ctx.note("timing: implementation+oracle until %.0fs, malformed/alias until %.0fs, model evaluation until %.0fs" % (
        t_impl, t_coq, ctx.elapsed()))
    badset = set(bad or [])
    for ci, what, rep in deferred:
        report_witness(ctx, what, rep, predicted=(bad is None or ci is None or ci not in badset))
    if bad is None:
        ctx.tie_broken("C18 model evaluation failed", log)
    else:
        ctx.validated(len(cases) - len(bad))
        for i in bad[:8]:
            ctx.tie_broken("query-correspondence", meta[i])
        if bad:
            ctx.count("model-mismatch", len(bad))


def to_tuple(p):
    """JSON round trip turns tuples into lists"""
    if p is None:
        return None
    k = p[0]
    if k == "path":
        return ("path", p[1], [tuple(s[:3]) + (to_tuple(s[3]),) for s in p[2]])
    if k == "not":
        return ("not", to_tuple(p[1]))
    if k in ("and", "or"):
        return (k, to_tuple(p[1]), to_tuple(p[2]))
    if k == "cmp":
        return ("cmp", p[1], sx_tuple(p[2]), sx_tuple(p[3]))
    return ("str", sx_tuple(p[1]))


def sx_tuple(e):
    if e[0] == "fn":
        return ("fn", e[1], [sx_tuple(a) for a in e[2]])
    return tuple(e)


class _NoRng:
    def random(self):
        return 0.99


def minimise(ctx, raw, steps, mode):
    """shrink a failing case and report the minimised one (its signature is what known_findings matches)"""
    import random
    det = random.Random(0)

    class Sink:
        def __init__(self):
            self.sigs = []

        def violation(self, sig, what, obj):
            self.sigs.append((sig, what, obj))

    def outcome(raw2, steps2):
        g2, order2 = effective(raw2)
        ids2 = [b"%08x" % i for i in range(len(raw2))]
        text2 = show_path(steps2, _NoRng(), "abs" if steps2[0][0] else "rel")
        res2 = run_impl(raw2, order2, ids2, text2, mode)
        sink = Sink()
        check_case(sink, g2, steps2, text2, mode, res2, {"raw": raw2, "steps": steps2, "mode": mode, "text": text2})
        return sink.sigs

    first = outcome(raw, steps)
    if not first:
        return
    sig0 = first[0][0]
    raw2, steps2 = shrink(raw, steps, lambda r, s: any(x[0] == sig0 for x in outcome(r, s)))
    for sig, what, obj in outcome(raw2, steps2):
        ctx.violation(sig, what + " [minimised]", obj)


def aliases_and_syntax(ctx, rng):
    """alias substitution (first step of a relative path only) and ill-typed / malformed queries:
    they must be answered with BobError, never with another exception."""
    raw = [{"name": "", "direct": [1, 2], "indirect": [], "env": {}},
           {"name": "a", "direct": [3], "indirect": [4], "env": {"V": "1"}},
           {"name": "b", "direct": [3], "indirect": [], "env": {}},
           {"name": "c", "direct": [4], "indirect": [], "env": {"V": "0"}},
           {"name": "al", "direct": [], "indirect": [], "env": {}}]
    g, order = effective(raw)
    ids = make_ids(rng, len(raw))
    aliases = {"al": "a/c", "deep": "//c", "pr": "*[c]", "abs": "/b"}
    table = [  # query, equivalent query without aliases
        ("al", "a/c"), ("al/al", "a/c/al"), ("/al", "/zz-no-alias"), ("deep/al", "//c/al"), ("pr/c", "*[c]/c"),
        ("a/al", "a/al"), ("*[al]", "*[al]"), ("abs/c", "/b/c"), ("al//", "a/c"), ("deep", "//c"), ("pr", "*[c]"),
        ("", "."), ("/", "."), ("//", "."),
    ]
    for q, eq in table:
        for mode in MODES:
            for qa in (False, True):
                r1 = one_query(raw, order, ids, aliases, q, mode, qa)
                r2 = one_query(raw, order, ids, {}, eq if eq != "/zz-no-alias" else "/al", mode, qa)
                ctx.evaluated(2)
                ctx.count("alias")
                ctx.nontrivial(("alias", q, mode, qa))
                if r1 != r2:
                    ctx.violation("alias-substitution", "query %r with aliases %r gives %r, substituted query %r gives %r" % (
                        q, aliases, r1, eq, r2), {"raw": raw, "aliases": aliases, "text": q, "equivalent": eq, "mode": mode})
    bad = ["*[b < 'a']", "*['a' < 'b' == 'c']", "*[!'a' < 'b']", "*[nosuch('a')]", "a[b][c]", "..", "a/[b]", "a[", "a]",
           "*[b &&]", "child@", "nonaxis@a", "a//[b]", "*['a' 'b']", "*[eq('a',)]", "a b", "[a]", "*[()]", "*[b || || c]"]
    toks = ["a", "*", "/", "//", "[", "]", "!", "&&", "||", "'x'", '"y"', "==", "<", "(", ")", ".", "child@", "eq(", ",", "self@*"]
    t0 = ctx.elapsed()
    for i in range(ctx.n(150, 2500)):
        if i >= len(bad) + 60 and ctx.elapsed() - t0 > ctx.n(40, 300):
            break
        q = bad[i] if i < len(bad) else "".join(rng.choice(toks) + rng.choice(["", "", " "]) for _ in range(rng.randint(1, 8)))
        r = one_query(raw, order, ids, {}, q, "nullset", False)
        ctx.evaluated()
        ctx.count("malformed:" + r[0])
        if r[0] == "internal":
            ctx.violation("internal-exception", "query %r raised %s" % (q, r[1]), {"raw": raw, "text": q, "mode": "nullset"})
        if i < len(bad) and r[0] != "syntax":
            ctx.violation("malformed-query-accepted", "query %r -> %r" % (q, r), {"raw": raw, "text": q, "mode": "nullset"})


# =================================================================== real recipes through `bob ls`
REAL_NAMES = ["a", "b", "c", "lib", "lib-x", "libc", "a.b", "x+1", "app_1", "ab", "b-unittest", "a-unittest", "Z", "tool"]


def write_project(d, rng, n):
    """recipes for a random DAG with unique package names; some dependencies are re-provided
    (provideDeps), which creates indirect edges in the package graph"""
    names = rng.sample(REAL_NAMES, n)
    deps = {i: [] for i in range(n)}
    for j in range(1, n):
        ps = [i for i in range(j) if rng.random() < 0.35]
        for i in ps:
            deps[i].append(j)
    roots = [j for j in range(n) if j == 0 or not any(j in deps[i] for i in range(j)) or rng.random() < 0.15]
    os.makedirs(os.path.join(d, "recipes"))
    with open(os.path.join(d, "config.yaml"), "w") as f:
        f.write('bobMinimumVersion: "0.25"\n')
    envs = {}
    for i in range(n):
        rng.shuffle(deps[i])
        prov = [names[c] for c in deps[i] if rng.random() < 0.4]
        envs[names[i]] = {v: rng.choice(["GPL", "MIT", "0", "1", "false", "ab"]) for v in VARS if rng.random() < 0.6}
        with open(os.path.join(d, "recipes", names[i] + ".yaml"), "w") as f:
            if i in roots:
                f.write("root: True\n")
            if deps[i]:
                f.write("depends: [%s]\n" % ", ".join('"%s"' % names[c] for c in deps[i]))
            if prov:
                f.write("provideDeps: [%s]\n" % ", ".join('"%s"' % x for x in prov))
            if envs[names[i]]:
                f.write("metaEnvironment:\n" + "".join('    %s: "%s"\n' % kv for kv in envs[names[i]].items()))
            f.write('buildScript: "true"\npackageScript: "true"\n')
    return envs


def bob(d, args):
    import subprocess
    r = subprocess.run(["/venv/bin/python", os.path.join(core.REPO, "bob")] + args, cwd=d, stdout=subprocess.PIPE,
                       stderr=subprocess.PIPE, text=True, timeout=120)
    return r.returncode, r.stdout, r.stderr


def listed_graph(d, envs):
    """the package graph as `bob ls -r -p` shows it (-a: with indirect edges).  Without environment
    differences every recipe yields one package, so a package is identified by its name."""
    rc1, out_d, err1 = bob(d, ["ls", "-r", "-p"])
    rc2, out_a, err2 = bob(d, ["ls", "-r", "-p", "-a"])
    if rc1 or rc2:
        return None, (err1 + err2)[-500:]
    direct = set()
    alle = []
    for out, sink in ((out_d, None), (out_a, alle)):
        for line in out.split("\n"):
            if not line.strip():
                continue
            parts = [""] + line.strip().split("/")
            for a, b in zip(parts, parts[1:]):
                if sink is None:
                    direct.add((a, b))
                elif (a, b) not in sink:
                    sink.append((a, b))
    names = [""]
    for a, b in alle:
        for x in (a, b):
            if x not in names:
                names.append(x)
    num = {x: i for i, x in enumerate(names)}
    g = [{"name": x, "kids": [], "env": envs.get(x, {})} for x in names]
    for a, b in alle:
        g[num[a]]["kids"].append((num[b], (a, b) in direct))
    return g, None


def real_projects(ctx, rng, n_proj, n_q):
    for pi in range(n_proj):
        d = core.scratch_dir("c18proj")
        try:
            envs = write_project(d, rng, rng.choice([4, 5, 6, 7, 8]))
            g, err = listed_graph(d, envs)
            if g is None:
                ctx.tie_broken("real-project-listing", err)
                continue
            names = sorted(r["name"] for r in g[1:])
            for qi in range(n_q):
                steps = fix_leads(gen_guided(rng, g, names, rng.choice([0, 1, 2]), rng.choice([1, 2, 2, 3]), {0}), "rel")
                text = show_path(steps, rng, "rel")
                mode = rng.choice(MODES)
                want = ds_query(g, steps, mode)
                for alt in (False, True):
                    rc, out, errtxt = bob(d, ["--query", mode, "ls", "-d"] + (["-A"] if alt else []) + [text])
                    ctx.evaluated()
                    ctx.count("real:" + ("ok" if rc == 0 else "error"))
                    ctx.nontrivial(("real", pi, text, mode, alt))
                    case = {"kind": "real-recipes", "names": [r["name"] for r in g], "kids": [r["kids"] for r in g],
                            "envs": envs, "text": text, "mode": mode, "alternates": alt, "stdout": out, "stderr": errtxt[-400:]}
                    if "Traceback" in errtxt:
                        if "RecursionError" in errtxt:
                            ctx.count("resource-limit:RecursionError")
                        else:
                            ctx.violation("internal-exception", "bob ls -d %r crashed" % text, case)
                        continue
                    if rc != 0:
                        got = ("notfound",) if "not found" in errtxt else ("nomatch",) if "matched no packages" in errtxt else ("other",)
                    else:
                        got = ("ok", [l.strip() for l in out.split("\n") if l.strip()])
                    if got[0] != want[0]:
                        ctx.violation("bob-ls:empty-mode:%s:%s-instead-of-%s" % (mode, got[0], want[0]),
                                      "bob --query %s ls -d %r: %s, prescribed %s" % (mode, text, got[0], want[0]), case)
                        continue
                    if got[0] != "ok":
                        continue
                    paths = [[] if l == "/" else l.split("/") for l in got[1]]
                    ends = [real_path(g, p) for p in paths]
                    if None in ends:
                        ctx.violation("bob-ls:reported-path-not-real", "bob ls -d %r printed a path that does not exist" % text, case)
                    elif set(ends) != set(want[1]):
                        ctx.violation("bob-ls:result-set-differs", "bob ls -d %r: packages %r, declarative %r" % (
                            text, sorted(g[e]["name"] for e in set(ends)), sorted(g[e]["name"] for e in want[1])), case)
                    elif not alt and len(ends) != len(set(ends)):
                        ctx.violation("bob-ls:result-reported-twice", "bob ls -d %r lists a package twice" % text, case)
                    elif len(set(map(tuple, paths))) != len(paths):
                        ctx.violation("bob-ls:path-reported-twice", "bob ls -d -A %r lists a path twice" % text, case)
                    else:
                        ctx.validated(1)
        finally:
            shutil.rmtree(d, ignore_errors=True)


def load_corpus():
    out = []
    for p in sorted(glob.glob(os.path.join(core.VERIF, "corpus", "C18", "*.json"))):
        out.append(json.load(open(p)))
    return out


def replay(ctx):
    d = json.load(open(ctx.replay))
    c = d.get("case", d)
    with Scratch():
        raw = c["raw"]
        g, order = effective(raw)
        ids = [b"%08x" % i for i in range(len(raw))]
        mode = c.get("mode", "nullglob")
        if "steps" in c:
            steps = [tuple(s[:3]) + (to_tuple(s[3]),) for s in c["steps"]]
            text = c.get("text") or show_path(steps, _NoRng(), "abs" if steps[0][0] else "rel")
            res = run_impl(raw, order, ids, text, mode, c.get("aliases"))
            print("query %r mode %s" % (text, mode))
            for k, v in res.items():
                print("  implementation %s/queryAll=%s -> %r" % (k[0], k[1], v))
            print("  declarative: %r" % (ds_query(g, steps, mode),))
            if check_case(ctx, g, steps, text, mode, res, c):
                W = ds_witness_paths(g, steps)
                print("  witness paths: %r" % (W if W is None else sorted(W),))
                predicted = True
                if all(r[0] in ("ok", "notfound", "nomatch") for r in res.values()):
                    exp = "(%s, %s, %s, %s)" % tuple(coq_qres(g, res[k]) for k in
                                                     [("tree", False), ("tree", True), ("pkgs", False), ("pkgs", True)])
                    bad, _ = coq.run_cases(ctx, ["BobV.C18.Model"], "run4", "res4_eqb",
                                           [("(g0, %s, %s)" % (MODE_COQ[mode], coq_path(steps)), exp)],
                                           preamble=PRE + "Definition g0 : graph := %s.\n" % coq_graph(g), tag="rp", shard=250)
                    predicted = not bad
                    print("  model of the pinned algorithm predicts this output: %r" % predicted)
                witness_check(ctx, g, steps, text, res, c, predicted=predicted)
        else:
            r = one_query(raw, order, ids, c.get("aliases"), c["text"], mode, False)
            print("query %r -> %r" % (c["text"], r))
            if r[0] == "internal":
                ctx.violation("internal-exception", "replayed", c)
    ctx.evaluated()
