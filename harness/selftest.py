"""Mutation self-test (calibration; not a registered check).
usage: selftest.py <Cxx> <file-in-repo> <old-text> <new-text> [tier]
Copies /repo to a scratch dir, replaces old-text by new-text once, runs the
property's check against the copy and prints whether it raised an alarm."""
import os, shutil, subprocess, sys, tempfile

def main():
    prop, rel, old, new = sys.argv[1:5]
    tier = sys.argv[5] if len(sys.argv) > 5 else "quick"
    d = tempfile.mkdtemp(prefix="bobv-mut-", dir="/var/tmp")
    try:
        dst = os.path.join(d, "repo")
        shutil.copytree("/repo", dst, symlinks=True, ignore=shutil.ignore_patterns(".git"))
        p = os.path.join(dst, rel)
        s = open(p).read()
        if s.count(old) != 1:
            print("MUTATION NOT APPLICABLE: old text occurs %d times" % s.count(old)); return 2
        open(p, "w").write(s.replace(old, new))
        env = dict(os.environ, BOBV_REPO=dst)
        r = subprocess.run(["/verif/check", prop, tier], env=env, stdout=subprocess.PIPE, stderr=subprocess.STDOUT, text=True)
        lines = [l for l in r.stdout.split("\n") if l.startswith(("VIOLATION", "KNOWN", prop))]
        print("\n".join(lines[-6:]))
        print("=> %s (exit %d)" % ("CAUGHT" if r.returncode == 1 else "MISSED", r.returncode))
        return 0
    finally:
        shutil.rmtree(d, ignore_errors=True)
        # the check rewrote evidence for the mutant; that is not evidence for /repo
sys.exit(main())
