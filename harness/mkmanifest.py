"""Regenerates /verif/MANIFEST.json from the table below (run after adding a check)."""
import json, os, sys
VERIF = os.path.dirname(os.path.dirname(os.path.abspath(__file__)))

CHECKS = {
    "C17": dict(
        text="Coq model of StringParser/isFalse/string functions/if-expression evaluation; theorems (unbounded): single-quote "
             "and backslash protection in every delimiter context, infix condition == function-call form, string order is a "
             "strict total order. Tie: every run evaluates the model (vm_compute) and bob.stringparser from /repo on the same "
             "rendered ASTs, raw strings and if-expressions; an independent evaluator of the documented semantics is the "
             "failing-input oracle.",
        note="trusted: Coq kernel, vm_compute, harness generators/literal printer, constants translator; re/fnmatch functions "
             "and the pyparsing grammar are exercised on the implementation only",
        technique="Coq proof (induction over token scanner / expression AST) + model-vs-implementation correspondence",
        design="5/C17"),
}

CHECKS["C02"] = dict(
    text="Coq model of the Variant-Id digest (DigestHasher, CoreStep.getDigest): theorems for every hash function H: the recipe "
         "part is decodable hence injective (character-count prefixed UTF-8, sorted tools/env), equal ids => equal executed/"
         "consumed content or an explicit H-collision, ids are a function of that content; `_refuted`: argument sequences are "
         "not separated when host parts move between arguments (finding F5, known). Tie: per step of generated projects the "
         "model id (Coq SHA-1, vm_compute) equals getVariantId() of the real RecipeSet; oracle: across a project and its "
         "single-edit neighbours equal id <=> equal (scripts run, non-weak variable values, tools, input variants).",
    note="trusted: Coq kernel, vm_compute, harness, Common/Sha1.v instance (test vectors); YAML parsing and class resolution are "
         "exercised through the real parser only",
    technique="Coq proof (decoder round trip => injectivity; collision-extraction) + model-vs-implementation correspondence",
    design="5/C02")
CHECKS["C03"] = dict(
    text="Same Coq development (Ids/): order independence of tools/variables (sorting is canonical: Permutation + NoDup keys), "
         "purity (function of core and host stream), Build-Id ignores variant/path/libs of weakly used tools. Tie: model "
         "Build-Ids equal StepIR.getDigestCoro of the real code; oracle: ids of generated projects are identical under other "
         "absolute path, permuted file/key order, PYTHONHASHSEED, warm caches, id-irrelevant edits, sandbox on/off (except "
         "fingerprinted steps), and the shipped reference project reproduces its golden ids.",
    note="trusted as C02; Build-Ids use synthetic source hashes/fingerprints (the digest function is what is tied)",
    technique="Coq proof (canonical sorting, purity) + configuration-sweep differential check + golden ids",
    design="5/C02-C03")

CHECKS["C19"] = dict(
    text="Coq model of ArchiveScanner (index with files/refs rows, scan with removal of vanished rows and refs), the predicate/"
         "retain-expression evaluation, the LIMIT queue, query, the closure loop of clean, find, --dry-run and -n. 15 unbounded "
         "theorems: top-n queue for all arrival orders, query = union of selections, clean keeps selected+closure and deletes "
         "everything else, dry-run/find/scan/failing commands delete nothing, find lists exactly the selected, scan makes the "
         "index the exact image of the archive, index_transparent over all histories (put/replace/touch/delete/commands), "
         "closure = reachability. Tie: histories on real scratch archives of genuine .tgz artifacts run through doArchive -l and "
         "through the model (vm_compute); independent declarative oracle; warm/stale vs fresh index.",
    note="trusted: Coq kernel, vm_compute, harness; sqlite, pyparsing grammar, tar/gzip/json decoding are exercised, not modelled; "
         "hypothesis stat_faithful (same name and binStat => same audit trail)",
    technique="Coq proof (invariants over command histories, queue/closure lemmas) + differential histories on real archives",
    design="5/C19")
CHECKS["C20"] = dict(
    text="Coq model of JobNameCalculator.sanitize (AbstractJob spanning, childs/parents closure, greedy merge of mutually "
         "unreachable jobs, naming/numbering) and _genJenkinsJobs. Unbounded theorems: childs closed under job reachability "
         "through every merge, contracting mutually unreachable vertices keeps a DAG, every needed variant in exactly one job, "
         "upstream completeness; names_unique and job-graph acyclicity are `_refuted` by witnesses (known findings F4, F13) and "
         "proved `_partial`. Tie: generated recipe projects parsed by the real RecipeSet, genJenkinsJobs/BuildOrder run "
         "untouched and compared with the model; embedded job spec round trip compared getter by getter.",
    note="trusted: Coq kernel, vm_compute, harness; PartialIR serialisation is only tied by the correspondence; fuel sufficiency "
         "of the model loops is tied by correspondence, not proved",
    technique="Coq proof (graph contraction/closure invariants) + model-vs-implementation correspondence on generated projects",
    design="5/C20")

CHECKS["C10"] = dict(
    text="Coq model of _BobState persistence (save = write .dirty + rename to .new, commit = verify Adler-32 trailer, fsync, "
         "rename to the pickle; lock file with O_EXCL; async sections; 41 public mutators) over a file-system model with "
         "crashes (unsynced content adversarial). Unbounded theorems: after any history of invocations and crashes at any "
         "operation boundary, incl. during recovery, the next start loads without error exactly one saved snapshot not older "
         "than the last completed invocation; the committed file is durable at every instant; a second instance is refused and "
         "touches nothing; every mutator saves on change; async sections defer and flush. Tie: the real _BobState driven with "
         "open/os.open/replace/fsync/unlink wrapped, op traces and getter sweeps compared with the model, ~700 crash images "
         "restarted for real.",
    note="hypothesis `detectable` (torn content equals what was written or fails the checksum) is explicit and shown necessary; "
         "pickle is discharged by a concrete serialiser; directory-entry durability in program order is assumed",
    technique="Coq proof (crash-recovery invariant over all traces/prefixes) + fault enumeration on the real state class",
    design="5/C10")
CHECKS["C11"] = dict(
    text="Coq model of hashDirectory/DirHasher and the FileIndex merge-walk cache (cache.bin). Theorems for every hash function "
         "H: hash is a function of the canonical form (names, types, modes, contents, link targets), injective up to an explicit "
         "H-collision among the hashed blobs (unique decodability of the separator-free blob), DFS order sorted, cached hash = "
         "uncached hash for every truthful (even unsorted/truncated/stale) index and over all histories incl. the bytes of the "
         "rewritten cache.bin. Tie: real trees and histories under /var/tmp hashed by the real code with hashlib wrapped: digest, "
         "blob sequence, hit/miss sequence and new cache.bin bytes compared with the model.",
    note="SHA-1 abstract in theorems; model runs use a per-case table of real digests; premise 'stat data determines content' "
         "is the property's own assumption",
    technique="Coq proof (canonical form, decodability, cache invariant over histories) + differential histories on real trees",
    design="5/C11")
CHECKS["C18"] = dict(
    text="Coq model of LocationPath evaluation (normalisation, forward evaluation, backward predicate evaluation, axis closures, "
         "intermediate-node search, result path reconstruction, empty-result modes, glob). Unbounded theorems: forward = backward "
         "= declarative XPath-style semantics, normalisation preserves meaning, closures exact with sufficient fuel, reported "
         "paths are real root paths to selected packages, every selected package is reported (both modes), once without "
         "queryAll, mode table; the strict 'path passes through the intermediate steps' clause is `_refuted` (known finding F30) "
         "and proved in the weak form. Tie: the real PackageSet driven with generated DAGs and queries parsed by the real grammar.",
    note="pyparsing grammar and sqlite graph cache exercised only; string predicates restricted to the modelled functions",
    technique="Coq proof (semantic equivalence by induction over query ASTs and graph depth) + differential check",
    design="5/C18")

READY = ["C02", "C03", "C10", "C11", "C17", "C18", "C19", "C20"]

NOT_YET = {}


def main():
    props = [json.loads(l) for l in open(os.path.join(VERIF, "properties.jsonl"))]
    checks = []
    na = []
    for p in props:
        pid = p["id"]
        if pid in CHECKS and pid in READY and os.path.exists(os.path.join(VERIF, "harness", "props", pid.lower() + ".py")):
            c = CHECKS[pid]
            checks.append({
                "property_id": pid,
                "quick_cmd": "./check %s quick" % pid,
                "thorough_cmd": "./check %s thorough" % pid,
                "evidence_file": "/verif/evidence/%s.json" % pid,
                "replay_cmd_template": "./check %s --replay {path}" % pid,
                "engine": "coq-model+correspondence",
                "level_claimed": {"category": "proof", "text": c["text"], "design_ref": "DESIGN.md section " + c["design"]},
                "level_note": c["note"],
                "technique": c["technique"],
            })
        else:
            na.append({"property_id": pid, "reason": NOT_YET.get(pid, "check not built yet in this revision (design in DESIGN.md section 5); no claim is made")})
    m = {
        "version": 1,
        "setup_cmd": "./check setup",
        "hooks": {"guard": "BOB_VERIF", "enable": "no in-source hooks: the harness imports /repo/pym and wraps functions at run time (BOB_VERIF=1 is set for child processes)",
                  "baseline_off_cmd": "/venv/bin/python /verif/harness/baseline_check.py",
                  "source_commits": [], "add_only": True},
        "engines": [{"name": "coq-model+correspondence", "path": "/verif/check",
                     "serves_properties": [c["property_id"] for c in checks],
                     "kind_free_text": "Coq 8.16.1 development under /verif/coq (theorems), Python harness under /verif/harness "
                                       "(translator of constants, differential correspondence model<->/repo, failing-input search)"}],
        "checks": checks,
        "not_applicable": na,
        "notes": "fix: commits in /repo are listed in known_findings.json. Every check rebuilds coq/Gen/Consts.v from /repo, "
                 "re-makes its .vo cone, parses Print Assumptions, then runs the correspondence on /repo's working tree.",
    }
    with open(os.path.join(VERIF, "MANIFEST.json"), "w") as f:
        json.dump(m, f, indent=1)
    print("checks:", [c["property_id"] for c in checks])


if __name__ == "__main__":
    main()
