"""Regenerates /verif/MANIFEST.json from the table below (run after adding a check)."""
import json, os, sys
VERIF = os.path.dirname(os.path.dirname(os.path.abspath(__file__)))

CHECKS = {
    "C17": dict(
        text="Coq model of StringParser/isFalse/string functions/if-expression evaluation; theorems (unbounded): single-quote "
             "and backslash protection in every delimiter context, infix condition == function-call form, string order is a "
             "strict total order. Tie: every run evaluates the model (vm_compute) and bob.stringparser from /repo on the same "
             "rendered ASTs, raw strings and if-expressions; an independent evaluator of the documented semantics is the "
             "failing-input oracle.",
        note="trusted: Coq kernel, vm_compute, harness generators/literal printer, constants translator; re/fnmatch functions "
             "and the pyparsing grammar are exercised on the implementation only",
        technique="Coq proof (induction over token scanner / expression AST) + model-vs-implementation correspondence",
        design="5/C17"),
}

CHECKS["C02"] = dict(
    text="Coq model of the Variant-Id digest (DigestHasher, CoreStep.getDigest): theorems for every hash function H: the recipe "
         "part is decodable hence injective (character-count prefixed UTF-8, sorted tools/env), equal ids => equal executed/"
         "consumed content or an explicit H-collision, ids are a function of that content; `_refuted`: argument sequences are "
         "not separated when host parts move between arguments (finding F5, known). Tie: per step of generated projects the "
         "model id (Coq SHA-1, vm_compute) equals getVariantId() of the real RecipeSet; oracle: across a project and its "
         "single-edit neighbours equal id <=> equal (scripts run, non-weak variable values, tools, input variants).",
    note="trusted: Coq kernel, vm_compute, harness, Common/Sha1.v instance (test vectors); YAML parsing and class resolution are "
         "exercised through the real parser only",
    technique="Coq proof (decoder round trip => injectivity; collision-extraction) + model-vs-implementation correspondence",
    design="5/C02")
CHECKS["C03"] = dict(
    text="Same Coq development (Ids/): order independence of tools/variables (sorting is canonical: Permutation + NoDup keys), "
         "purity (function of core and host stream), Build-Id ignores variant/path/libs of weakly used tools. Tie: model "
         "Build-Ids equal StepIR.getDigestCoro of the real code; oracle: ids of generated projects are identical under other "
         "absolute path, permuted file/key order, PYTHONHASHSEED, warm caches, id-irrelevant edits, sandbox on/off (except "
         "fingerprinted steps), and the shipped reference project reproduces its golden ids.",
    note="trusted as C02; Build-Ids use synthetic source hashes/fingerprints (the digest function is what is tied)",
    technique="Coq proof (canonical sorting, purity) + configuration-sweep differential check + golden ids",
    design="5/C02-C03")

NOT_YET = {}


def main():
    props = [json.loads(l) for l in open(os.path.join(VERIF, "properties.jsonl"))]
    checks = []
    na = []
    for p in props:
        pid = p["id"]
        if pid in CHECKS and os.path.exists(os.path.join(VERIF, "harness", "props", pid.lower() + ".py")):
            c = CHECKS[pid]
            checks.append({
                "property_id": pid,
                "quick_cmd": "./check %s quick" % pid,
                "thorough_cmd": "./check %s thorough" % pid,
                "evidence_file": "/verif/evidence/%s.json" % pid,
                "replay_cmd_template": "./check %s --replay {path}" % pid,
                "engine": "coq-model+correspondence",
                "level_claimed": {"category": "proof", "text": c["text"], "design_ref": "DESIGN.md section " + c["design"]},
                "level_note": c["note"],
                "technique": c["technique"],
            })
        else:
            na.append({"property_id": pid, "reason": NOT_YET.get(pid, "check not built yet in this revision (design in DESIGN.md section 5); no claim is made")})
    m = {
        "version": 1,
        "setup_cmd": "./check setup",
        "hooks": {"guard": "BOB_VERIF", "enable": "no in-source hooks: the harness imports /repo/pym and wraps functions at run time (BOB_VERIF=1 is set for child processes)",
                  "baseline_off_cmd": "/venv/bin/python /verif/harness/baseline_check.py",
                  "source_commits": [], "add_only": True},
        "engines": [{"name": "coq-model+correspondence", "path": "/verif/check",
                     "serves_properties": [c["property_id"] for c in checks],
                     "kind_free_text": "Coq 8.16.1 development under /verif/coq (theorems), Python harness under /verif/harness "
                                       "(translator of constants, differential correspondence model<->/repo, failing-input search)"}],
        "checks": checks,
        "not_applicable": na,
        "notes": "fix: commits in /repo are listed in known_findings.json. Every check rebuilds coq/Gen/Consts.v from /repo, "
                 "re-makes its .vo cone, parses Print Assumptions, then runs the correspondence on /repo's working tree.",
    }
    with open(os.path.join(VERIF, "MANIFEST.json"), "w") as f:
        json.dump(m, f, indent=1)
    print("checks:", [c["property_id"] for c in checks])


if __name__ == "__main__":
    main()
