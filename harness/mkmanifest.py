"""Regenerates /verif/MANIFEST.json from the table below (run after adding a check)."""
import json, os, sys
VERIF = os.path.dirname(os.path.dirname(os.path.abspath(__file__)))

CHECKS = {
    "C17": dict(
        text="Coq models of StringParser/isFalse/string functions/if-expression evaluation: a transliteration of the recursive "
             "descent (Model.v) and a character-level pushdown machine (Machine.v), proved equal on every input with fuel "
             "adequacy (parse_is_parseM, fuel_enough), and the documented language as an AST with value and rendering (Spec.v). "
             "Theorems (unbounded): every expression tree of the documented grammar, rendered, parses to its documented value - "
             "errors and laziness of untaken branches included, in any surrounding context (parse_render); totality; single-"
             "quote and backslash protection in every delimiter context; infix condition == function-call form; string order is "
             "a strict total order. Tie: every run evaluates both models and the Coq specification (vm_compute) and "
             "bob.stringparser from /repo on the same rendered ASTs, raw strings and if-expressions (full and minimal "
             "parentheses); an independent evaluator of the documented semantics is the failing-input oracle. The concrete syntax "
             "of if-expressions is in the model too (IfGrammar.v: PEG transliteration of the pyparsing grammar as instantiated by "
             "stringparser.py): parse_if_render (every well-formed AST, rendered with minimal parentheses, parses back to itself), "
             "parse_if_of_text (any white space, redundant parentheses, any literal spelling), totality, precedence and "
             "associativity for arbitrary operands (tighter_operator_groups_right, binary_operators_left_associative, "
             "not_binds_tightest, chained_comparison_rejected), single_quoted_literal_verbatim; tied by comparing parse_if with the "
             "object tree the real parser builds on rendered ASTs, token soups and Coq-rendered texts.",
        note="trusted: Coq kernel, vm_compute, harness generators/literal printer, constants translator; re/fnmatch functions "
             "are exercised on the implementation only; pyparsing itself is not verified (its instantiated grammar is modelled and "
             "compared), BinaryStrOperator's parse-action type check is modelled as a check after the syntactic parse",
        technique="Coq proof (induction over token scanner / expression AST) + model-vs-implementation correspondence",
        design="5/C17"),
}

CHECKS["C02"] = dict(
    text="Coq model of the Variant-Id digest (DigestHasher, CoreStep.getDigest): theorems for every hash function H: the recipe "
         "part is decodable hence injective (character-count prefixed UTF-8, sorted tools/env), equal ids => equal executed/"
         "consumed content or an explicit H-collision, ids are a function of that content; `_refuted`: argument sequences are "
         "not separated when host parts move between arguments (finding F5, known). Tie: per step of generated projects the "
         "model id (Coq SHA-1, vm_compute) equals getVariantId() of the real RecipeSet; oracle: across a project and its "
         "single-edit neighbours equal id <=> equal (scripts run, non-weak variable values, tools, input variants).",
    note="trusted: Coq kernel, vm_compute, harness, Common/Sha1.v instance (test vectors); YAML parsing is exercised through the "
         "real parser only (class resolution: see C03)",
    technique="Coq proof (decoder round trip => injectivity; collision-extraction) + model-vs-implementation correspondence",
    design="5/C02")
CHECKS["C03"] = dict(
    text="Same Coq development (Ids/): order independence of tools/variables (sorting is canonical: Permutation + NoDup keys), "
         "purity (function of core and host stream), Build-Id ignores variant/path/libs of weakly used tools. Tie: model "
         "Build-Ids equal StepIR.getDigestCoro of the real code; oracle: ids of generated projects are identical under other "
         "absolute path, permuted file/key order, PYTHONHASHSEED, warm caches, id-irrelevant edits, sandbox on/off (except "
         "fingerprinted steps), and the shipped reference project reproduces its golden ids. Class resolution is in the model "
         "(Ids/Classes.v: Recipe.__resolveClassesOrder and the merge loop of resolveClasses, also as an in-place version threading "
         "a heap of objects): linearise_no_class_twice / exactly_the_ancestors / bases_before_derived / succeeds_iff / "
         "never_out_of_fuel, resolve_depends_only_on_ancestors (unrelated recipes and classes have no influence), "
         "resolve_inplace_is_resolve_and_frames and resolve_inplace_commutes (resolving recipes in any order gives the same "
         "results and leaves every class object unchanged), override/union/script-order laws; tied by resolving generated class "
         "hierarchies with the real RecipeSet (private fields after resolution) and in Coq, with direct oracles: same resolved "
         "recipes and Variant-Ids under another file read order / an added unreferenced recipe, class objects unchanged.",
    note="trusted as C02; Build-Ids use synthetic source hashes/fingerprints (the digest function is what is tied); YAML parsing, "
         "schema validation and Recipe.__init__ stay with the real parser (the class model starts from the object state after "
         "__init__); two objects sharing one list/dict object are not expressible in the heap model (covered by the pollution oracle)",
    technique="Coq proof (canonical sorting, purity) + configuration-sweep differential check + golden ids",
    design="5/C02-C03")

CHECKS["C19"] = dict(
    text="Coq model of ArchiveScanner (index with files/refs rows, scan with removal of vanished rows and refs), the predicate/"
         "retain-expression evaluation, the LIMIT queue, query, the closure loop of clean, find, --dry-run and -n. 15 unbounded "
         "theorems: top-n queue for all arrival orders, query = union of selections, clean keeps selected+closure and deletes "
         "everything else, dry-run/find/scan/failing commands delete nothing, find lists exactly the selected, scan makes the "
         "index the exact image of the archive, index_transparent over all histories (put/replace/touch/delete/commands), "
         "closure = reachability. Tie: histories on real scratch archives of genuine .tgz artifacts run through doArchive -l and "
         "through the model (vm_compute); independent declarative oracle; warm/stale vs fresh index.",
    note="trusted: Coq kernel, vm_compute, harness; sqlite, pyparsing grammar, tar/gzip/json decoding are exercised, not modelled; "
         "hypothesis stat_faithful (same name and binStat => same audit trail)",
    technique="Coq proof (invariants over command histories, queue/closure lemmas) + differential histories on real archives",
    design="5/C19")
CHECKS["C20"] = dict(
    text="Coq model of JobNameCalculator.sanitize (AbstractJob spanning, childs/parents closure, greedy merge of mutually "
         "unreachable jobs, naming/numbering) and _genJenkinsJobs. Unbounded theorems: childs closed under job reachability "
         "through every merge, contracting mutually unreachable vertices keeps a DAG, every needed variant in exactly one job, "
         "upstream completeness; names_unique and job-graph acyclicity are `_refuted` by witnesses (known findings F4, F13) and "
         "proved `_partial`. Tie: generated recipe projects parsed by the real RecipeSet, genJenkinsJobs/BuildOrder run "
         "untouched and compared with the model; embedded job spec round trip compared getter by getter.",
    note="trusted: Coq kernel, vm_compute, harness; PartialIR serialisation is only tied by the correspondence; fuel sufficiency "
         "of the model loops is tied by correspondence, not proved",
    technique="Coq proof (graph contraction/closure invariants) + model-vs-implementation correspondence on generated projects",
    design="5/C20")

CHECKS["C10"] = dict(
    text="Coq model of _BobState persistence (save = write .dirty + rename to .new, commit = verify Adler-32 trailer, fsync, "
         "rename to the pickle; lock file with O_EXCL; async sections; 41 public mutators) over a file-system model with "
         "crashes (unsynced content adversarial). Unbounded theorems: after any history of invocations and crashes at any "
         "operation boundary, incl. during recovery, the next start loads without error exactly one saved snapshot not older "
         "than the last completed invocation; the committed file is durable at every instant; a second instance is refused and "
         "touches nothing; every mutator saves on change; async sections defer and flush. Tie: the real _BobState driven with "
         "open/os.open/replace/fsync/unlink wrapped, op traces and getter sweeps compared with the model, ~700 crash images "
         "restarted for real.",
    note="hypothesis `detectable` (torn content equals what was written or fails the checksum) is explicit and shown necessary; "
         "pickle is discharged by a concrete serialiser; directory-entry durability in program order is assumed",
    technique="Coq proof (crash-recovery invariant over all traces/prefixes) + fault enumeration on the real state class",
    design="5/C10")
CHECKS["C11"] = dict(
    text="Coq model of hashDirectory/DirHasher and the FileIndex merge-walk cache (cache.bin). Theorems for every hash function "
         "H: hash is a function of the canonical form (names, types, modes, contents, link targets), injective up to an explicit "
         "H-collision among the hashed blobs (unique decodability of the separator-free blob), DFS order sorted, cached hash = "
         "uncached hash for every truthful (even unsorted/truncated/stale) index and over all histories incl. the bytes of the "
         "rewritten cache.bin. Tie: real trees and histories under /var/tmp hashed by the real code with hashlib wrapped: digest, "
         "blob sequence, hit/miss sequence and new cache.bin bytes compared with the model.",
    note="SHA-1 abstract in theorems; model runs use a per-case table of real digests; premise 'stat data determines content' "
         "is the property's own assumption",
    technique="Coq proof (canonical form, decodability, cache invariant over histories) + differential histories on real trees",
    design="5/C11")
CHECKS["C18"] = dict(
    text="Coq model of LocationPath evaluation (normalisation, forward evaluation, backward predicate evaluation, axis closures, "
         "intermediate-node search, result path reconstruction, empty-result modes, glob). Unbounded theorems: forward = backward "
         "= declarative XPath-style semantics, normalisation preserves meaning, closures exact with sufficient fuel, reported "
         "paths are real root paths to selected packages, every selected package is reported (both modes), once without "
         "queryAll, mode table; the strict 'path passes through the intermediate steps' clause is `_refuted` (known finding F30) "
         "and proved in the weak form. Tie: the real PackageSet driven with generated DAGs and queries parsed by the real grammar.",
    note="pyparsing grammar and sqlite graph cache exercised only; string predicates restricted to the modelled functions",
    technique="Coq proof (semantic equivalence by induction over query ASTs and graph depth) + differential check",
    design="5/C18")

CHECKS["C01"] = dict(
    text="Coq model of the builder's invalidate-run-record logic (_cookBuildStep, _preparePackageStep/_cookPackageStep, the "
         "script part of _cookCheckoutStep) as micro-operation sequences on workspace slots, lifted to projects (dependency-"
         "ordered steps) and histories of projects. Unbounded theorems: for every history of project states with an incremental "
         "build after each, every workspace of the final project holds what a from-scratch build produces "
         "(incremental_equals_clean); one build from any invariant state is correct and re-establishes the invariants; a "
         "repeated build runs no build/package step and no deterministic checkout; a reused directory is pruned before use; "
         "the result does not depend on the schedule: every build of the history and the last one may run in any dependency-"
         "respecting order (-jN) and still end with the canonical clean content (any_schedule_equals_clean). Tie: "
         "real `bob dev`/`bob build` (also -j4, also interleaved with the other mode) over generated edit/revert histories: "
         "per-step run/skip decisions of every build compared with the model (history_runs, vm_compute) and, per workspace, the "
         "traced sequence of persistent-state operations, prunes and script runs compared with the model's micro-op sequences "
         "(history_traces); oracle: dist trees equal a clean build after every step; repeat build is a no-op.",
    note="script behaviour is abstracted (deterministic, restartable; checkout scripts oblivious to leftovers) and satisfied by "
         "the generated scripts by construction; equal input hashes => equal input content is C11; sandbox/fingerprint/download/"
         "share paths are other properties",
    technique="Coq proof (slot invariants at every micro-op, induction over dependency order and history) + decision correspondence",
    design="5/C01-C05")
CHECKS["C05"] = dict(
    text="Same Coq development (Builder/): every crash image of every step — a kill after any persistent-state operation or "
         "inside the running script (partial output) — keeps the invariant of every workspace; from any invariant state the next "
         "build yields the clean results (abort_recovers), hence after any sequence of aborts; a step is skipped only if its "
         "workspace holds the complete output for the current inputs. The proof attempt exposed finding F29 (kill between prune "
         "and state reset), fixed in /repo. Killed -jN builds and repeated aborts: any sequence of partial or complete step "
         "executions keeps the invariants and the next build in any schedule is clean (partial_executions_keep_invariants, "
         "recover_after_partial_executions). Tie: the micro-op sequences whose prefixes are the crash images of the theorems are "
         "compared with the traced persistent-state operations, prunes and script runs of real builds (history_traces), plus the "
         "decision correspondence; oracle: real builds (also -j/-k) aborted by kill at the k-th state save, kill right after a "
         "prune or an invalidation, failing scripts, SIGKILL from inside a script, first builds aborted inside every script in "
         "turn, then lock removed, rebuilt and compared with a clean build.",
    note="as C01; kill points inside individual file operations of the state file are C10's matter",
    technique="Coq proof (invariant over all crash prefixes) + fault injection on real builds",
    design="5/C01-C05")
CHECKS["C06"] = dict(
    text="Two Coq LTS models, any number of tasks/tokens/nodes, all interleavings: (a) JobServerSemaphore (pipe, token stack, "
         "waiters, grants, recursive mode): tokens conserved, acquired bounded, quiescent => all returned, release never crashes, "
         "no lost wake-up; (b) the cook scheduler (task keys, fence, workspace lock with the token yielded, wasRun, failed "
         "workspaces, keep-going): jobs bounded, deps before start, workspace exclusive and once, failure stops/confined, "
         "schedule independence, progress (no deadlock); the three pre-fix protocols are `_refuted` by witnesses (F7, F21, F31). "
         "Tie: the real semaphore stepped by scripted interleavings and compared state by state; real `bob dev -jN [-k] "
         "[--sandbox]` traces replayed through the model's trace monitor; dist equal to -j1.",
    note="that asyncio, the OS pipe and builder.py refine the two LTS is sampled, not proved; --checkout-only, restart and "
         "cancellation are not modelled",
    technique="Coq proof (LTS invariants by induction on steps, progress) + trace acceptance of real schedules",
    design="5/C06")
CHECKS["C08"] = dict(
    text="Coq model of artifact extraction over a file system with symlinks and hard links (kernel path walk vs realpath, "
         "tarfile's per-member behaviour incl. makedirs and the makelink fall-back, the extraction filter with the three fixes) "
         "and of pack. Theorems: kernel resolution agrees with realpath, every accepted extraction leaves everything outside "
         "workspace+audit untouched (content, mode, inode), per-member confinement, pack/extract round trip as path->node map, "
         "wrong version/unknown member/truncation rejected, download accepted only if audit present and recorded hash = hash of "
         "the extracted tree. Tie: hostile member lists and generated trees run through the real TarHelper/LocalArchive in a "
         "chroot jail and compared with the model; truncations/bit flips through the real download path.",
    note="tar/gzip codecs are the standard library's; confinement assumes no pre-existing symlink outside leading back in; one "
         "corner (makelink fall-back re-creating a parent through the replaced link) is covered by corpus+oracle only",
    technique="Coq proof (confinement invariant over member sequences) + differential extraction in a jail",
    design="5/C08")
CHECKS["C09"] = dict(
    text="Coq interleaving LTS over a file system (names->inode->bytes) of package uploaders, cache mirrors, metadata "
         "uploaders and readers, any number of processes, injected errors and kills at every program counter. Theorems: artifact "
         "name absent or the complete payload of one finished uploader, immutable once present, failed/killed uploads leave "
         "nothing, readers see nothing or a prefix of a complete artifact, mirror commits only a fully drained stream. Tie: the "
         "real upload/download/mirror code run as threads with every file operation a scheduling point, same schedules on the "
         "model; multi-process SIGKILL stress.",
    note="file backend and POSIX branch only; HTTP/Azure/shell backends' atomicity is the server's; no power-loss model",
    technique="Coq proof (inductive invariant over all interleavings) + scheduled differential runs + stress",
    design="5/C09")
CHECKS["C13"] = dict(
    text="Coq model of shlex.quote, of bash word evaluation for the fragment Bob emits, of the generated prolog (exports, "
         "PATH/LD_LIBRARY_PATH, arguments), the host-environment filter, the pruning to declared variables over "
         "checkout/build/package/fingerprint, and of the sandbox mount plan. Theorems: bash_word (quote s) = s for every NUL-free "
         "string and in any context, exported values exact, visible variables exactly declared + Bob's + whitelisted host, "
         "arguments in order, tools on PATH, fingerprint env restricted, mount plan: only own workspace writable, every "
         "dependency read-only, slim sandbox hides the project. Tie: quote vs real shlex.quote, bash_word vs real bash on every "
         "string, real Invoker runs dumping env -0 and \"$@\", real sandbox runs compared with /proc/self/mountinfo.",
    note="kernel enforcement of mounts and namespace-sandbox.c are exercised, not proved; BOB_*_PATHS arrays not modelled",
    technique="Coq proof (lexer/quoting round trip by induction) + differential runs against bash and the real invoker",
    design="5/C13")
CHECKS["C14"] = dict(
    text="Coq model of audit records (digestData with the source's type tags, artifact ids, merge/addArg/addTool/setSandbox, "
         "validate, save/load) and of the audit-relevant micro-ops of cook/download/upload/share. Theorems: artifact id is a "
         "function of the record, key-order independent, uniquely decodable hence injective up to an explicit hash collision; "
         "merge keeps trails closed; every trail next to a workspace, in the archive and in the share validates over all "
         "histories incl. failures; recorded ids/result hash equal what the state holds; a failure before setResultHash forces a "
         "rerun. Tie: digestData/generate/validate compared with the real audit.py and _generateAudit; real bob builds "
         "(fresh/incremental/download) with every audit.json.gz checked against live ids and a fresh hashDirectory.",
    note="scms/env/build fields are environment inputs; tools part of dependency completeness is correspondence only",
    technique="Coq proof (decoder round trip, closure invariant over histories) + differential check on real trails",
    design="5/C14")
CHECKS["C15"] = dict(
    text="Coq LTS (33 control points) of LocalShare install/use/gc with two-level advisory locks, buffered writes, rename "
         "install, auto-gc with newPkg protection; any processes, schedules, quota. Theorems: visible package complete and "
         "hashed, lock protocol excludes, installed at most once, repo.json is the sum of installed packages (window between "
         "rename and accounting explicit), gc collects oldest-first only unused until quota, no spurious failure; 'never "
         "collected while used' is `_refuted` for the use-then-link window (known finding F8) and proved for recorded users with "
         "an existing link. Tie: the real LocalShare driven by threads stopped at every control point under generated "
         "schedules, compared with the model after every action; multi-process stress.",
    note="flock/rename kernel semantics modelled; deadlock freedom only by oracle",
    technique="Coq proof (LTS invariants over all interleavings) + scheduled differential runs on the real class",
    design="5/C15")

CHECKS["C12"] = dict(
    text="Coq model of an abstract git workspace (commit DAG, branches, HEAD, remotes, tags, dirty/untracked files) with the "
         "semantics of exactly the operations Bob issues, and of Bob's decisions on top: switch-or-attic, AtticTracker prefix "
         "matching in path order, collision rule, reset --keep guard, url digest rule, clean -s / clean --attic expendability. "
         "Unbounded theorems: every user commit and uncommitted file content that exists after some history still exists (in "
         "place or in an attic) after any further bob dev / --clean-checkout / clean -s / clean --attic; nested SCMs follow their "
         "parent into the attic; deletion requires every recorded SCM (nested form for --attic) to be expendable; an expendable "
         "directory holds no user object; fresh checkout/successful switch reaches the target except in the named shapes, which "
         "are `_refuted` by witnesses (known findings F15, F16, F17, F35). Tie: real git 2.39 universes and real bob runs over "
         "generated histories; complete observed state and Bob's decisions compared with the model after every step; sweep for "
         "every user-created object.",
    note="partial by design: git itself is modelled and validated differentially; rebase, submodules, svn/cvs, checkoutScript "
         "are outside the model",
    technique="Coq proof (monotonicity invariant over histories of operations) + differential runs against real git and bob",
    design="5/C12")

CHECKS["C04"] = dict(
    text="Coq model of tracked readers (Env.touched stack, touchReset, derive), the PackageMatcher memo of Recipe.prepare with "
         "touch propagation on hits, the merge by result-id, the YAML parse cache and the package-tree cache key. Unbounded "
         "theorems: read determinacy (agreement on touched keys => same result and touches), memo transparency for every "
         "history of nested prepare calls (without the merge, and with it under the named hypothesis rid_determines_subtree, "
         "which is `_refuted` for the real code: known findings F18/F19), YAML cache transparency under the stat assumption, "
         "cache key determines its inputs or an explicit SHA-1 collision. Tie: real RecipeSet dumps over edit histories: cold vs "
         "warm vs each cache file removed vs uncached in-memory (matches patched off) vs other hash seed; an interpreter of the "
         "calculus (Instance.v) compared with the real memo tables and package trees.",
    note="the tie between Recipe.prepare and the calculus is correspondence only; plugins and SCMs are outside the model",
    technique="Coq proof (determinacy and transparency by induction over call trees/histories) + cold/warm differential runs",
    design="5/C04")

CHECKS["C07"] = dict(
    text="Coq model of the package-step driver with downloads: dissect of the persisted input state, the download-mode table "
         "(translated from __setDownloadMode), _downloadPackage (prune on changed build-id, retry rule, audit presence and "
         "content-hash verification), the download-tried flag, live build-id prediction with restart, over an abstract archive. "
         "Unbounded theorems (mutual induction over the package tree): download_equals_local for every download configuration "
         "under an honest archive, other_workspace_zero_builds, wrong predictions restart at most n_srcs+1 times and converge, "
         "mismatch/no-audit never accepted; checkout state is keyed by the checkout step (packages sharing one checkout, "
         "hypothesis src_consistent, checked by the harness on every tree); the Build-Id side imports Ids/: equal Build-Ids => equal platform/script/tools/vars/"
         "argument ids or an explicit collision (weak-tool name ambiguity stated). Tie: two real workspaces at different paths "
         "sharing a file archive, all download modes, tampering, emulated host fingerprints; decisions, state kinds and dist "
         "trees compared with the model and with a local clean build.",
    note="'equal Build-Id => equal result' (honest archive) is a hypothesis by construction of the property; shared packages, "
         "layers, -j>1 and git live ids are not modelled (moved branches are emulated by wrong .buildid files)",
    technique="Coq proof (induction over package trees and restart passes) + two-workspace differential experiments",
    design="5/C07")
CHECKS["C16"] = dict(
    text="Coq model of the develop directory oracle (visit order, first-key-wins, keep rule, numbering) iterated over histories "
         "of project states, of release-mode by-name allocation, of the prune decision for reused build/package directories and "
         "of bob clean (collectPaths, delete set, -s/--force/--dry-run). Unbounded theorems: develop directories are injective "
         "on (recipe, Variant-Id) after every refresh and stable for keys that stay; release directories injective and stable "
         "over all call sequences; a directory handed to another variant is emptied before use; clean deletes only unused "
         "paths, keeps every up-to-date result, --dry-run changes nothing, sources only with -s and expendable. Tie: the real "
         "DevelopDirOracle (sqlite kept), BobState, doClean and _preparePackageStep driven in-process, plus real bob "
         "dev/build/clean runs on generated projects.",
    note="hypothesis hist_sep (no two base dirs differ only by a trailing slash) is counted on every generated state",
    technique="Coq proof (history invariants, delete-set algebra) + differential runs on the real classes and CLI",
    design="5/C16")

READY = ["C01", "C02", "C03", "C04", "C05", "C06", "C07", "C08", "C09", "C10", "C11", "C12", "C13", "C14", "C15", "C16", "C17", "C18", "C19", "C20"]

NOT_YET = {}


def main():
    props = [json.loads(l) for l in open(os.path.join(VERIF, "properties.jsonl"))]
    checks = []
    na = []
    for p in props:
        pid = p["id"]
        if pid in CHECKS and pid in READY and os.path.exists(os.path.join(VERIF, "harness", "props", pid.lower() + ".py")):
            c = CHECKS[pid]
            checks.append({
                "property_id": pid,
                "quick_cmd": "./check %s quick" % pid,
                "thorough_cmd": "./check %s thorough" % pid,
                "evidence_file": "/verif/evidence/%s.json" % pid,
                "replay_cmd_template": "./check %s --replay {path}" % pid,
                "engine": "coq-model+correspondence",
                "level_claimed": {"category": "proof", "text": c["text"], "design_ref": "DESIGN.md section " + c["design"]},
                "level_note": c["note"],
                "technique": c["technique"],
            })
        else:
            na.append({"property_id": pid, "reason": NOT_YET.get(pid, "check not built yet in this revision (design in DESIGN.md section 5); no claim is made")})
    m = {
        "version": 1,
        "setup_cmd": "./check setup",
        "hooks": {"guard": "BOB_VERIF", "enable": "no in-source hooks: the harness imports /repo/pym and wraps functions at run time (BOB_VERIF=1 is set for child processes)",
                  "baseline_off_cmd": "/venv/bin/python /verif/harness/baseline_check.py",
                  "source_commits": [], "add_only": True},
        "engines": [{"name": "coq-model+correspondence", "path": "/verif/check",
                     "serves_properties": [c["property_id"] for c in checks],
                     "kind_free_text": "Coq 8.16.1 development under /verif/coq (theorems), Python harness under /verif/harness "
                                       "(translator of constants, differential correspondence model<->/repo, failing-input search)"}],
        "checks": checks,
        "not_applicable": na,
        "notes": "fix: commits in /repo are listed in known_findings.json. Every check rebuilds coq/Gen/Consts.v from /repo, "
                 "re-makes its .vo cone, parses Print Assumptions, then runs the correspondence on /repo's working tree.",
    }
    with open(os.path.join(VERIF, "MANIFEST.json"), "w") as f:
        json.dump(m, f, indent=1)
    print("checks:", [c["property_id"] for c in checks])


if __name__ == "__main__":
    main()
