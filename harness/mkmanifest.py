"""Regenerates /verif/MANIFEST.json from the table below (run after adding a check)."""
import json, os, sys
VERIF = os.path.dirname(os.path.dirname(os.path.abspath(__file__)))

CHECKS = {
    "C17": dict(
        text="Coq model of StringParser/isFalse/string functions/if-expression evaluation; theorems (unbounded): single-quote "
             "and backslash protection in every delimiter context, infix condition == function-call form, string order is a "
             "strict total order. Tie: every run evaluates the model (vm_compute) and bob.stringparser from /repo on the same "
             "rendered ASTs, raw strings and if-expressions; an independent evaluator of the documented semantics is the "
             "failing-input oracle.",
        note="trusted: Coq kernel, vm_compute, harness generators/literal printer, constants translator; re/fnmatch functions "
             "and the pyparsing grammar are exercised on the implementation only",
        technique="Coq proof (induction over token scanner / expression AST) + model-vs-implementation correspondence",
        design="5/C17"),
}

NOT_YET = {}


def main():
    props = [json.loads(l) for l in open(os.path.join(VERIF, "properties.jsonl"))]
    checks = []
    na = []
    for p in props:
        pid = p["id"]
        if pid in CHECKS and os.path.exists(os.path.join(VERIF, "harness", "props", pid.lower() + ".py")):
            c = CHECKS[pid]
            checks.append({
                "property_id": pid,
                "quick_cmd": "./check %s quick" % pid,
                "thorough_cmd": "./check %s thorough" % pid,
                "evidence_file": "/verif/evidence/%s.json" % pid,
                "replay_cmd_template": "./check %s --replay {path}" % pid,
                "engine": "coq-model+correspondence",
                "level_claimed": {"category": "proof", "text": c["text"], "design_ref": "DESIGN.md section " + c["design"]},
                "level_note": c["note"],
                "technique": c["technique"],
            })
        else:
            na.append({"property_id": pid, "reason": NOT_YET.get(pid, "check not built yet in this revision (design in DESIGN.md section 5); no claim is made")})
    m = {
        "version": 1,
        "setup_cmd": "./check setup",
        "hooks": {"guard": "BOB_VERIF", "enable": "no in-source hooks: the harness imports /repo/pym and wraps functions at run time (BOB_VERIF=1 is set for child processes)",
                  "baseline_off_cmd": "/venv/bin/python /verif/harness/baseline_check.py",
                  "source_commits": [], "add_only": True},
        "engines": [{"name": "coq-model+correspondence", "path": "/verif/check",
                     "serves_properties": [c["property_id"] for c in checks],
                     "kind_free_text": "Coq 8.16.1 development under /verif/coq (theorems), Python harness under /verif/harness "
                                       "(translator of constants, differential correspondence model<->/repo, failing-input search)"}],
        "checks": checks,
        "not_applicable": na,
        "notes": "fix: commits in /repo are listed in known_findings.json. Every check rebuilds coq/Gen/Consts.v from /repo, "
                 "re-makes its .vo cone, parses Print Assumptions, then runs the correspondence on /repo's working tree.",
    }
    with open(os.path.join(VERIF, "MANIFEST.json"), "w") as f:
        json.dump(m, f, indent=1)
    print("checks:", [c["property_id"] for c in checks])


if __name__ == "__main__":
    main()
